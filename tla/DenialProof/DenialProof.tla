---------------------------- MODULE DenialProof ----------------------------
(***************************************************************************)
(* The aggressive denial-proof cache of sdns (RFC 8198 synthesis) as a     *)
(* lease-composition state machine: middleware/cache/denial_proof_cache.go *)
(* (admission = recordWithKind/extract, lookup = lookupWithMeta /          *)
(* denialProofEvaluate / denialProofResponse / pruneZoneLocked, purge) and *)
(* its two consumers in cache.go / store.go (Cache.lookupDenialProof and   *)
(* Store.GetWithContext, both handing the expiry of the synthesised reply  *)
(* to the request tree with boundRequestTo).                               *)
(*                                                                         *)
(* One signer zone.  The index retains per zone                            *)
(*   - ONE SOA entry   (id = zone apex; a later admission REPLACES it:     *)
(*                      c.byID[entry.id] -> detachEntryLocked(previous))   *)
(*   - one entry per denial RRset owner ("piece": an NSEC or NSEC3 RRset   *)
(*                      with its RRSIGs; same replacement rule)            *)
(* each with its own absolute expiry.  extract() gives the SOA entry       *)
(*   now + min(SOA TTL, SOA MINIMUM, RRSIG(SOA) OrigTTL / expiration, cap, *)
(*             delegation lease)                                           *)
(* and every proof entry the same minimum FOLDED with its own RRset's TTL  *)
(* and RRSIG window (lifetimeRecords = commonRecords + set).               *)
(* What kind of name a piece covers is C02's business (Denial.tla); here a *)
(* question is abstracted to the set of pieces Need[q] the evaluator must  *)
(* find live to prove it and to the rcode of the proof.                    *)
(*                                                                         *)
(* Lookup(q) (the body of Synth / MissGet / Resolve / Derive / HitDerChase): *)
(*   no live SOA entry     -> the whole zone is retired (PruneZone), miss  *)
(*   some entry expired    -> expired entries are dropped (PruneExpired)   *)
(*   every piece of Need[q] retained and live -> synthesis:                *)
(*        expires = min(soa.exp, exp of the pieces used)                   *)
(*        TTL of every record = expires - now, AD = 1,                     *)
(*        expires is handed to the request tree                            *)
(*   otherwise miss: the question goes upstream and, when the answer is    *)
(*   validated (Secure), its SOA and proof RRsets are admitted.            *)
(*                                                                         *)
(* Found by replaying this model on the code (first versions of the model  *)
(* had neither):                                                           *)
(*   - a synthesis INSIDE an alias chase is admitted again by the outer    *)
(*     cache writer (the reply keeps its validation provenance across the  *)
(*     alias merge): every piece used is replaced by itself with the       *)
(*     composed lifetime (Derive).  Deliberate deviation: the code rounds  *)
(*     that lifetime down to whole seconds at every such re-admission (up  *)
(*     to 1 s of erosion each); the model's ticks are coarser.             *)
(*   - a hit on the re-cached alias entry serves the stored composed reply *)
(*     and, for a NODATA target, chases the target again and merges the    *)
(*     result in (HitDer / HitDerChase / HitDerResolve).                   *)
(*                                                                         *)
(* `tru` is a ghost: the lifetime the PROPERTY grants a piece (its own     *)
(* TTL / RRSIG window from the instant it was learned), kept apart from    *)
(* `exp`, the expiry the CODE computed; the mutants change exp only.       *)
(***************************************************************************)
EXTENDS Integers, FiniteSets, TLC

CONSTANTS
  Pieces,      \* proof RRset owners of the zone (abstract)
  Questions,   \* question classes
  Need,        \* [Questions -> SUBSET Pieces \ {{}}]
  Rcode,       \* [Questions -> {"NX", "ND"}]
  Lifetimes,   \* lifetimes an authority hands out (ticks)
  Steps,       \* clock advances
  Routes,      \* "srv" (Cache.ServeDNS: ServeMsg / ServeRaw), "get" (Store.GetWithContext)
  AliasTTL,    \* TTL of the alias record of Derive (longer than every lifetime)
  MaxClock, MaxGen,
  Secure,      \* the zone validates (answers carry local validation provenance)
  Mutant       \* "none" or the name of a model mutant (negative configs)

None == [g |-> 0]
ASSUME /\ \A q \in Questions : Need[q] \subseteq Pieces /\ Need[q] # {}
       /\ Secure \in BOOLEAN

VARIABLES
  now,     \* clock (ticks)
  gen,     \* admissions so far (each admission = one validated negative answer)
  soa,     \* None or [g, exp, tru, val]   (g = the admission that brought it)
  pf,      \* [Pieces -> None or [g, exp, tru, val]]
  der,     \* None or the alias entry re-cached from a synthesised reply [g |-> 1, q, exp, mtru]
  reply    \* what the last call returned
vars == <<now, gen, soa, pf, der, reply>>

Min(a, b) == IF a <= b THEN a ELSE b
Max(a, b) == IF a >= b THEN a ELSE b
SetMin(S) == CHOOSE x \in S : \A y \in S : x <= y
SetMax(S) == CHOOSE x \in S : \A y \in S : x >= y

Live(e) == e # None /\ e.exp > now
NoReply == [kind |-> "none"]

Init ==
  /\ now = 0 /\ gen = 0 /\ soa = None /\ der = None
  /\ pf = [p \in Pieces |-> None]
  /\ reply = NoReply

(* ---- lookupWithMeta: prune, evaluate, shape ---------------------------- *)
SoaUsable == IF Mutant = "expiredSoa" THEN soa # None ELSE Live(soa)

\* what pruneZoneLocked leaves behind
PrunedSoa == IF SoaUsable THEN soa ELSE None
PrunedPf  == IF SoaUsable THEN [p \in Pieces |-> IF Live(pf[p]) \/ Mutant = "expiredPiece" THEN pf[p] ELSE None]
                          ELSE [p \in Pieces |-> None]

PieceUsable(p) == IF Mutant = "expiredPiece" THEN pf[p] # None ELSE Live(pf[p])

Covered(q) == /\ SoaUsable
              /\ IF Mutant = "uncovered" THEN \E p \in Need[q] : PieceUsable(p)
                                         ELSE \A p \in Need[q] : PieceUsable(p)

UsedPieces(q) == {p \in Need[q] : PieceUsable(p)}
\* denialProofResponse: expires := soa.expires, folded with every proof entry
SynthExpiry(q) ==
  LET pe == {pf[p].exp : p \in {u \in UsedPieces(q) : Mutant = "expiredPiece" => Live(pf[u])}}
  IN  IF Mutant = "proofsOnly" THEN SetMin(pe)
      ELSE IF Mutant = "handSoaOnly" THEN soa.exp
      ELSE SetMin(pe \cup {soa.exp})
\* the lifetime the property grants the composed reply
MinTru(q) == SetMin({pf[p].tru : p \in UsedPieces(q)} \cup {soa.tru})

SynthReply(q, r) ==
  LET e  == SynthExpiry(q)
      te == IF Mutant = "handSoaOnly" THEN SetMin({pf[p].exp : p \in UsedPieces(q)} \cup {soa.exp}) ELSE e
  IN [kind |-> "synth", q |-> q, route |-> r, rc |-> Rcode[q], at |-> now,
      ttl  |-> te - now, hand |-> e, ad |-> TRUE,
      soaGen |-> soa.g, gens |-> [p \in UsedPieces(q) |-> pf[p].g],
      mtru |-> MinTru(q), allval |-> soa.val /\ \A p \in UsedPieces(q) : pf[p].val,
      complete |-> Need[q] \subseteq UsedPieces(q)]

(* ---- recordWithKind: the bundle of one validated negative answer ------- *)
Admits == Secure \/ Mutant = "admitUnvalidated"

NewSoa(s) ==
  LET e == IF Mutant = "soaKeepsLonger" /\ PrunedSoa # None THEN Max(PrunedSoa.exp, now + s) ELSE now + s
  IN  [g |-> gen + 1, exp |-> e, tru |-> now + s, val |-> Secure]
NewPiece(s, x) ==
  LET e == IF Mutant = "noFold" THEN now + x ELSE now + Min(s, x)
  IN  [g |-> gen + 1, exp |-> e, tru |-> now + x, val |-> Secure]

\* the upstream leg of a miss: q is answered by the authority with SOA lifetime s and proof lifetime x
Upstream(q, r, s, x) ==
  /\ gen < MaxGen
  /\ gen' = gen + 1
  /\ IF Admits
       THEN /\ soa' = NewSoa(s)
            /\ pf'  = [p \in Pieces |-> IF p \in Need[q] THEN NewPiece(s, x) ELSE PrunedPf[p]]
       ELSE /\ soa' = PrunedSoa
            /\ pf'  = PrunedPf
  /\ reply' = [kind |-> "resolved", q |-> q, route |-> r, rc |-> Rcode[q], at |-> now,
               ttl |-> Min(s, x), ad |-> Secure, s |-> s, x |-> x]

(* ---- client calls ------------------------------------------------------- *)
\* A fresh question of class q (never asked before: no exact entry, no subtree cut above it) through route r.
\* Query is one call of the code; it is split by outcome so that the authority's lifetimes are parameters only
\* where an authority is asked.
Synth(q, r) ==                       \* answered by the index
  /\ Covered(q)
  /\ reply' = SynthReply(q, r)
  /\ soa' = PrunedSoa /\ pf' = PrunedPf
  /\ UNCHANGED <<now, gen, der>>

MissGet(q) ==                        \* Store.GetWithContext never resolves: only the pruning is left behind
  /\ "get" \in Routes
  /\ ~Covered(q)
  /\ reply' = [kind |-> "miss", q |-> q, route |-> "get"]
  /\ soa' = PrunedSoa /\ pf' = PrunedPf
  /\ UNCHANGED <<now, gen, der>>

Resolve(q, s, x) ==                  \* Cache.ServeDNS: miss, resolved upstream, admitted on the way back
  /\ ~Covered(q)
  /\ Upstream(q, "srv", s, x)
  /\ UNCHANGED <<now, der>>

\* A fresh alias (own TTL AliasTTL, resolved upstream) whose target is a fresh question of class q that the index
\* answers.  The composed reply is re-cached under the alias, bounded by what the synthesis handed down -- and, as the
\* synthesised reply keeps its validation provenance across the alias merge, ResponseWriter.WriteMsg ADMITS it again:
\* the SOA entry and the proof entries used are replaced by themselves with the composed lifetime (TTL = what was
\* left, request-tree bound = hand), i.e. a synthesis inside an alias chase shortens every piece it used to the
\* shortest of them.
Derive(q) ==
  /\ Covered(q)
  /\ LET sr == SynthReply(q, "srv")
         e  == IF Mutant = "derivedMax" THEN Max(now + AliasTTL, sr.hand) ELSE Min(now + AliasTTL, sr.hand)
     IN /\ der' = [g |-> 1, q |-> q, exp |-> e, mtru |-> sr.mtru]
        /\ reply' = [sr EXCEPT !.kind = "derive"]
        /\ soa' = [soa EXCEPT !.exp = sr.hand]
        /\ pf'  = [p \in Pieces |-> IF p \in UsedPieces(q) THEN [pf[p] EXCEPT !.exp = sr.hand] ELSE PrunedPf[p]]
  /\ UNCHANGED <<now, gen>>

\* The alias asked again while its entry is live.  The entry holds the COMPOSED reply (alias record + the synthesised
\* authority section as it was then); every record of it shows what the entry has left.
\*  - NXDOMAIN at the end of the alias is terminal (RFC 6604): the hit is served from the entry alone, the index is not
\*    consulted.
\*  - NODATA: the target is chased again through the same lookup and what that returns is merged in (records already
\*    present are not repeated; a newer SOA entry appears NEXT TO the stored one).  The hit path has no cache writer
\*    around it: nothing is admitted again.
HitDer ==
  /\ der # None /\ der.exp > now /\ Rcode[der.q] = "NX"
  /\ reply' = [kind |-> "derhit", q |-> der.q, route |-> "srv", at |-> now, attl |-> der.exp - now, amtru |-> der.mtru]
  /\ UNCHANGED <<now, gen, soa, pf, der>>

HitDerChase ==
  /\ der # None /\ der.exp > now /\ Rcode[der.q] = "ND" /\ Covered(der.q)
  /\ reply' = [SynthReply(der.q, "srv") EXCEPT !.kind = "derchase"] @@ [attl |-> der.exp - now, amtru |-> der.mtru]
  /\ soa' = PrunedSoa /\ pf' = PrunedPf
  /\ UNCHANGED <<now, gen, der>>

\* ... and when the index no longer answers the target, the chase goes upstream.  From then on the target has an
\* ordinary exact entry of its own: it is no longer a fresh question, the alias is not followed further.
HitDerResolve(s, x) ==
  /\ der # None /\ der.exp > now /\ Rcode[der.q] = "ND" /\ ~Covered(der.q)
  /\ Upstream(der.q, "srv", s, x)
  /\ der' = None
  /\ UNCHANGED <<now>>

DropDer ==      \* the alias entry ages out (nothing observable; keeps the state space small)
  /\ der # None /\ der.exp <= now
  /\ der' = None
  /\ UNCHANGED <<now, gen, soa, pf, reply>>

Purge ==        \* Cache.Purge of any name of the zone: proof RRsets go, the SOA entry stays
  /\ pf' = [p \in Pieces |-> None]
  /\ reply' = NoReply
  /\ UNCHANGED <<now, gen, soa, der>>

Tick(d) ==
  /\ now + d <= MaxClock
  /\ now' = now + d
  /\ reply' = NoReply
  /\ UNCHANGED <<gen, soa, pf, der>>

Next ==
  \/ \E q \in Questions, r \in Routes : Synth(q, r)
  \/ \E q \in Questions : MissGet(q)
  \/ \E q \in Questions, s \in Lifetimes, x \in Lifetimes : Resolve(q, s, x)
  \/ \E q \in Questions : Derive(q)
  \/ HitDer
  \/ HitDerChase
  \/ \E s \in Lifetimes, x \in Lifetimes : HitDerResolve(s, x)
  \/ DropDer
  \/ Purge
  \/ \E d \in Steps : Tick(d)

Spec == Init /\ [][Next]_vars

(* ---- properties (C04 on the composed reply; the acceptance side abstract) *)
Composed == reply.kind \in {"synth", "derive", "derchase"}

TypeOK ==
  /\ now \in 0..MaxClock /\ gen \in 0..MaxGen
  /\ soa = None \/ soa.exp \in Nat
  /\ \A p \in Pieces : pf[p] = None \/ pf[p].exp \in Nat

\* the TTL shown never exceeds the time remaining of ANY piece used, the SOA entry included
TTLShown == Composed => reply.at + reply.ttl <= reply.mtru
\* the expiry handed to the request tree is no later than the shortest piece
HandDown == Composed => reply.hand <= reply.mtru
\* nothing is synthesised from a piece whose lifetime has ended
NoExpiredPiece == Composed => reply.at < reply.mtru
\* what is re-cached from a synthesised reply never outlives the pieces, and is never shown with more than they had left
DerivedWithinPieces == der # None => der.exp <= der.mtru
DerivedShown == reply.kind \in {"derhit", "derchase"} => /\ reply.at < reply.amtru
                                         /\ reply.at + reply.attl <= reply.amtru
\* AD only if every piece was validated
ADOnlyValidated == (reply.kind \in {"synth", "derive", "derchase", "resolved"} /\ reply.ad) =>
                      IF Composed THEN reply.allval ELSE Secure
\* a denial is synthesised only when the retained records cover the question
CoveredOnly == Composed => reply.complete
\* the expiry the index keeps is within the lifetime the records were given
EntryWithinTruth == /\ soa # None => soa.exp <= soa.tru
                    /\ \A p \in Pieces : pf[p] # None => pf[p].exp <= pf[p].tru
\* at admission a proof entry never outlives the SOA entry it came with (per-entry expiry folds the SOA bundle in);
\* later a synthesis inside an alias chase may cut the SOA entry below pieces it did not use
PieceFoldsSoaStep == (gen' = gen + 1 /\ soa' # None) =>
                        \A p \in Pieces : (pf'[p] # None /\ pf'[p].g = gen') => pf'[p].exp <= soa'.exp

(* `reply` is an output, not state: the exhaustive configs hide it with the VIEW and check the predicates over it as
   action properties (every generated transition is evaluated, seen view or not).                                  *)
StateView == <<now, gen, soa, pf, der>>
ATTLShown        == [][TTLShown']_vars
AHandDown        == [][HandDown']_vars
ANoExpiredPiece  == [][NoExpiredPiece']_vars
ADerivedShown    == [][DerivedShown']_vars
AADOnlyValidated == [][ADOnlyValidated']_vars
ACoveredOnly     == [][CoveredOnly']_vars
APieceFoldsSoa   == [][PieceFoldsSoaStep]_vars
=============================================================================
