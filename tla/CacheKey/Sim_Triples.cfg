CONSTANTS
  KDoms <- KDomsDeep
  KMax = 2
  MaxSteps = 5
  WithObs = TRUE
  PurgeByKey = FALSE
  PurgeLast = FALSE
  Kinds = {"pos", "fail", "cut", "ask"}
INIT Init
NEXT Next
CHECK_DEADLOCK FALSE
