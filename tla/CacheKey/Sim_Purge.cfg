CONSTANTS
  KDoms <- KDomsPurge
  KMax = 1
  MaxSteps = 4
  WithObs = TRUE
  PurgeByKey = FALSE
  PurgeLast = TRUE
  Kinds = {"pos", "fail", "cut", "ask"}
INIT Init
NEXT Next
CHECK_DEADLOCK FALSE
