CONSTANTS
  KDoms <- KDomsPurge
  KMax = 1
  MaxSteps = 4
  WithObs = TRUE
  PurgeLast = TRUE
  Kinds = {"pos", "fail", "cut", "ask"}
INIT Init
NEXT Next
CHECK_DEADLOCK FALSE
