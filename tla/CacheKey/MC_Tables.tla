----------------------------- MODULE MC_Tables -----------------------------
(* prints the constant tables of the universe so that the conformance driver *)
(* can validate them against the real prefixes / names it concretises them to *)
EXTENDS MC_CacheKey
ASSUME PrintT(<<"C03TABLES", FoldOf, NormOf, ProbesOf, OwnScope, InScope, SuffixesOf>>)
=============================================================================
