------------------------------ MODULE CacheKey ------------------------------
(***************************************************************************)
(* C03 -- a cached response only answers the exact question and audience   *)
(* it was stored for.                                                      *)
(*                                                                         *)
(* The model is the DECISION STRUCTURE of middleware/cache: which 64-bit   *)
(* key every route computes, which slot it reads, and which fields of the  *)
(* key preimage it re-verifies before it uses what it found.  The hash is  *)
(* adversarial: a set kdom of preimages is chosen at Init together with an *)
(* arbitrary function kfun: kdom -> 0..KMax (TLC enumerates all of them),  *)
(* every other preimage keeps a private key.  StoreForged additionally     *)
(* files an entry for identity A under the key of preimage B.              *)
(*                                                                         *)
(* One operator per code site (names in comments).  Lookups are pure.  In   *)
(* replay configs (WithObs) every mutating step is followed by an Observe  *)
(* step that stores in obs every non-miss outcome of every route for every *)
(* query of relq -- what the conformance driver compares the real pipeline *)
(* with.  `last` (the action just taken, with its arguments) and obs are   *)
(* ghosts hidden by VIEW.  kdom/kfun/ids/fids/relq are fixed at Init.      *)
(***************************************************************************)
EXTENDS Integers, FiniteSets, Sequences, TLC

CONSTANTS KDoms,      \* family of preimage sets that receive adversarial keys
          KMax,       \* adversarial keys are 0..KMax
          MaxSteps,   \* bound on the number of mutating actions
          PurgeLast,  \* BOOLEAN: directed replay configs -- writes first, one Purge as the last step
          WithObs,    \* BOOLEAN: maintain the derived variable obs (simulation / replay configs)
          PurgeByKey, \* BOOLEAN: TRUE = as built before fix-c03-purge-collision (Store.Purge empties q's two
                      \* shared slots whatever sits there); FALSE = the slot is emptied only when its entry
                      \* passes the full-preimage check for q (a colliding entry behaves as a miss)
          Kinds       \* subset of {"pos","fail","cut","ask"}: which stores/actions are exercised

(* ------------------------------ universe -------------------------------- *)
Names   == {"n", "N", "e"}          \* N = case variant of n; e = a different name (escaped /
                                    \* non-printable-octet / non-ASCII look-alike variant)
QNames  == Names \cup {"s"}         \* s = a name one label below n (subtree cuts)
FoldOf  == [x \in QNames |-> IF x = "N" THEN "n" ELSE x]      \* ASCII A-Z fold, nothing broader
FNames  == {"n", "e", "s"}
(* label-boundary suffixes (self first) of a folded name *)
SuffixesOf == [x \in FNames |-> IF x = "s" THEN <<"s", "n">> ELSE <<x>>]

Types   == {"T1", "T2"}
Classes == {"C1", "C2"}

(* scope arguments as handed to the writers, and their normal form         *)
(* (types.go normalizeKeyScope: invalid and /0 are the shared key, host    *)
(* bits below the prefix length are dropped)                               *)
Scopes  == {"none", "z4", "a4", "a4h", "a4n", "b4", "a6", "h4", "h4b", "h4o", "h6"}
NormOf  == [s \in Scopes |-> CASE s \in {"none", "z4"} -> "sh" [] s = "a4h" -> "a4" [] OTHER -> s]
NScopes == {NormOf[s] : s \in Scopes}

(* request audiences: the ECS source prefix a request carries               *)
(*  none = no ECS, c0 = source /0, c4w = 198.51.100.0/24 (= a4),           *)
(*  c4 = .77/32 (inside a4n = .64/26 inside a4), c4b = .200/32 (inside a4),*)
(*  c4o = 203.0.113.9/32 (inside b4), c6 = 2001:db8:1:2::/64 (inside a6)   *)
Clients == {"none", "c0", "c4w", "c4", "c4b", "c4o", "c6"}
(* Cache.scopedLookup: prefixes of the client's source, narrowest first,   *)
(* restricted to the scopes of the universe                                *)
ProbesOf == [c \in Clients |->
   CASE c = "c4"  -> <<"h4", "a4n", "a4">>
     [] c = "c4b" -> <<"h4b", "a4">>
     [] c = "c4w" -> <<"a4">>
     [] c = "c4o" -> <<"h4o", "b4">>
     [] c = "c6"  -> <<"h6", "a6">>
     [] OTHER     -> << >>]
(* the scope a request's own source prefix normalises to (failure entries  *)
(* are filed under it)                                                     *)
OwnScope == [c \in Clients |->
   CASE c = "c4" -> "h4" [] c = "c4b" -> "h4b" [] c = "c4w" -> "a4"
     [] c = "c4o" -> "h4o" [] c = "c6" -> "h6" [] OTHER -> "sh"]
(* SPEC-LEVEL containment (independent of the probe table): the audiences  *)
(* whose source prefix lies inside a scope                                 *)
InScope == [s \in NScopes |->
   CASE s = "sh"  -> Clients
     [] s = "a4"  -> {"c4w", "c4", "c4b"}
     [] s = "a4n" -> {"c4"}
     [] s = "h4"  -> {"c4"}
     [] s = "h4b" -> {"c4b"}
     [] s = "b4"  -> {"c4o"}
     [] s = "h4o" -> {"c4o"}
     [] s = "a6"  -> {"c6"}
     [] s = "h6"  -> {"c6"}]

Idents  == [name : Names, type : Types, class : Classes, cd : BOOLEAN, scope : Scopes]
Queries == [name : QNames, type : Types, class : Classes, cd : BOOLEAN, client : Clients]

(* key preimage: class|type|cd|folded name (+family|bits|addr)             *)
Pre(nm, ty, cl, cd, ns) == [name |-> FoldOf[nm], type |-> ty, class |-> cl, cd |-> cd, scope |-> ns]
PreOfId(id) == Pre(id.name, id.type, id.class, id.cd, NormOf[id.scope])
(* nxDomainCutHash: the denied name with a zero qtype, CD clear            *)
CutPre(nm, cl) == [name |-> nm, type |-> "T0", class |-> cl, cd |-> FALSE, scope |-> "sh"]

VARIABLES kdom, kfun,   \* the adversarial part of the hash, fixed at Init
          ids, fids,    \* identities whose preimage is in kdom (answer / failure writers), fixed at Init
          relq,         \* queries that compute at least one adversarial key (fixed at Init);
                        \* every other query only ever computes private keys >= 100, under which
                        \* nothing is stored (invariant KeysInDom), so it misses on every route
          pos,          \* answer store:   key -> entry            (PositiveCache)
          fail,         \* failure store:  key -> failure identity (FailureCache, question kind)
          cuts,         \* RFC 8020 cuts:  set of [name, class]    (nxDomainCutCache.entries)
          chash,        \* wire index:     key -> [name, class]    (nxDomainCutCache.byHash)
          steps,
          phase,        \* "m": next step mutates; "o": next step only recomputes obs (WithObs)
          last,         \* ghost: the action just taken
          obs           \* derived: every hit of every route

vars == <<kdom, kfun, ids, fids, relq, pos, fail, cuts, chash, steps, phase, last, obs>>

NameIx  == [x \in FNames |-> CASE x = "n" -> 1 [] x = "e" -> 2 [] OTHER -> 3]
TypeIx  == [x \in Types \cup {"T0"} |-> CASE x = "T0" -> 1 [] x = "T1" -> 2 [] OTHER -> 3]
ClassIx == [x \in Classes |-> IF x = "C1" THEN 1 ELSE 2]
ScopeIx == [x \in NScopes |-> CASE x = "sh" -> 1 [] x = "a4" -> 2 [] x = "a4n" -> 3 [] x = "b4" -> 4
                               [] x = "a6" -> 5 [] x = "h4" -> 6 [] x = "h4b" -> 7 [] x = "h4o" -> 8 [] OTHER -> 9]
(* an injective code: the private key of a preimage outside kdom *)
Code(p) == NameIx[p.name] + 4 * (TypeIx[p.type] + 4 * (ClassIx[p.class]
           + 3 * ((IF p.cd THEN 1 ELSE 0) + 2 * ScopeIx[p.scope])))
KeyOf(p) == IF p \in kdom THEN kfun[p] ELSE 100 + Code(p)

Has(f, k)    == k \in DOMAIN f
Put(f, k, v) == TLCEval([x \in DOMAIN f \cup {k} |-> IF x = k THEN v ELSE f[x]])
Del(f, k)    == TLCEval([x \in DOMAIN f \ {k} |-> f[x]])
Empty        == [x \in {} |-> 0]

(* what the writers build (store.go setFromResponseWithKey): the question  *)
(* as spelled in the response, e.cd = keyCD, e.scope = normalizeKeyScope   *)
Entry(id, g) == [name |-> id.name, type |-> id.type, class |-> id.class, cd |-> id.cd,
                 scope |-> NormOf[id.scope], gen |-> g]
(* failure_cache.go normalizeFailureQuestionKey *)
FEntry(nm, ty, cl, cd, ns) == [name |-> FoldOf[nm], type |-> ty, class |-> cl, cd |-> cd, scope |-> ns]
FOfId(id) == FEntry(id.name, id.type, id.class, id.cd, NormOf[id.scope])

(* ----------------------------- verifiers -------------------------------- *)
(* store.go entryMatchesPreimage *)
MatchesPreimage(e, ty, cl, cd, ns) ==
  e.type = ty /\ e.class = cl /\ e.cd = cd /\ e.scope = ns
(* store.go entryMatchesKey: + equalNameASCIIFold *)
MatchesKey(e, x, ns) ==
  MatchesPreimage(e, x.type, x.class, x.cd, ns) /\ FoldOf[e.name] = FoldOf[x.name]
(* store.go entryMatchesWireQuestion: shared scope, WireNameEqualsPresentation *)
MatchesWire(e, x) ==
  MatchesPreimage(e, x.type, x.class, x.cd, "sh") /\ FoldOf[e.name] = FoldOf[x.name]

Miss == [kind |-> "miss", name |-> "-", type |-> "-", class |-> "-", cd |-> FALSE, scope |-> "-", gen |-> 0]
HitPos(e)  == [kind |-> "pos", name |-> e.name, type |-> e.type, class |-> e.class, cd |-> e.cd,
               scope |-> e.scope, gen |-> e.gen]
HitCut(c)  == [kind |-> "cut", name |-> c.name, type |-> "-", class |-> c.class, cd |-> FALSE,
               scope |-> "sh", gen |-> 0]
HitFail(f) == [kind |-> "fail", name |-> f.name, type |-> f.type, class |-> f.class, cd |-> f.cd,
               scope |-> f.scope, gen |-> 0]

(* ------------------------- answer-store routes -------------------------- *)
(* cache.go scopedLookup: the FIRST populated probe is returned, verified  *)
(* or not; a mismatch there falls to the shared key only                   *)
RECURSIVE FirstPresent(_, _, _)
FirstPresent(x, probes, i) ==
  IF i > Len(probes) THEN "-"
  ELSE IF Has(pos, KeyOf(Pre(x.name, x.type, x.class, x.cd, probes[i]))) THEN probes[i]
  ELSE FirstPresent(x, probes, i + 1)

(* cache.go ServeDNS + handleCacheHit (message body; route msgHit / scopedProbe) *)
PosMsg(x) ==
  LET fs  == FirstPresent(x, ProbesOf[x.client], 1)
      ksh == KeyOf(Pre(x.name, x.type, x.class, x.cd, "sh"))
      ksc == KeyOf(Pre(x.name, x.type, x.class, x.cd, fs))
  IN IF fs # "-" /\ MatchesKey(pos[ksc], x, fs) THEN HitPos(pos[ksc])
     ELSE IF Has(pos, ksh) /\ MatchesKey(pos[ksh], x, "sh") THEN HitPos(pos[ksh])
     ELSE Miss

(* cache.go serveWire + entryMatchesWire (route wireHit), also the hop      *)
(* lookup of entry_wire_chase.go collectWireChase (route chaseHop)          *)
PosWire(x) ==
  LET k == KeyOf(Pre(x.name, x.type, x.class, x.cd, "sh"))
  IN IF Has(pos, k) /\ MatchesWire(pos[k], x) THEN HitPos(pos[k]) ELSE Miss

(* store.go Lookup -> LookupByKeyVerified (route subQueryGet) *)
PosGet(x) ==
  LET k == KeyOf(Pre(x.name, x.type, x.class, x.cd, "sh"))
  IN IF Has(pos, k) /\ MatchesKey(pos[k], x, "sh") THEN HitPos(pos[k]) ELSE Miss

(* ------------------------------ cut routes ------------------------------ *)
(* nxdomain_cut.go lookup: exact map on (canonical suffix, class) *)
RECURSIVE CutMsgWalk(_, _, _)
CutMsgWalk(x, sfx, i) ==
  IF i > Len(sfx) THEN Miss
  ELSE IF [name |-> sfx[i], class |-> x.class] \in cuts THEN HitCut([name |-> sfx[i], class |-> x.class])
  ELSE CutMsgWalk(x, sfx, i + 1)
(* cache.go lookupNXDomainCut: CD, any ECS audience and the bypass marker skip it *)
CutMsg(x) == IF x.cd \/ x.client # "none" THEN Miss ELSE CutMsgWalk(x, SuffixesOf[FoldOf[x.name]], 1)

(* nxdomain_cut_wire.go lookupWire: hash index, then class and name re-verified *)
RECURSIVE CutWireWalk(_, _, _)
CutWireWalk(x, sfx, i) ==
  IF i > Len(sfx) THEN Miss
  ELSE LET k == KeyOf(CutPre(sfx[i], x.class))
       IN IF Has(chash, k) /\ chash[k].class = x.class /\ chash[k].name = sfx[i] THEN HitCut(chash[k])
          ELSE CutWireWalk(x, sfx, i + 1)
CutWire(x) == IF x.cd \/ x.client # "none" THEN Miss ELSE CutWireWalk(x, SuffixesOf[FoldOf[x.name]], 1)

(* ---------------------------- failure routes ---------------------------- *)
(* failure_cache.go Lookup: hash of the normalised key, failureQuestionKeysEqual *)
FailMsg(x, ns) ==
  LET k == KeyOf(Pre(x.name, x.type, x.class, x.cd, ns))
  IN IF Has(fail, k) /\ fail[k] = FEntry(x.name, x.type, x.class, x.cd, ns) THEN HitFail(fail[k]) ELSE Miss
(* failure_cache.go LookupWire: unscoped only; type, class, CD, name re-verified *)
FailWire(x) ==
  LET k == KeyOf(Pre(x.name, x.type, x.class, x.cd, "sh"))
  IN IF Has(fail, k) /\ fail[k].scope = "sh" /\ fail[k].type = x.type /\ fail[k].class = x.class
        /\ fail[k].cd = x.cd /\ fail[k].name = FoldOf[x.name] THEN HitFail(fail[k]) ELSE Miss

(* --------------------------- pipeline ladders --------------------------- *)
Hit(r) == r.kind # "miss"
(* Cache.ServeDNS, decoded body: exact answer, subtree cut, failure *)
PipeMsg(x) ==
  LET p == PosMsg(x) c == CutMsg(x)
  IN IF Hit(p) THEN p ELSE IF Hit(c) THEN c ELSE FailMsg(x, OwnScope[x.client])
(* Cache.serveWire / serveCompositeFromWire; a request carrying ECS or a   *)
(* ladder that finds nothing materialises and runs the decoded body        *)
PipeWire(x) ==
  IF x.client # "none" THEN PipeMsg(x)
  ELSE LET p == PosWire(x) c == CutWire(x) f == FailWire(x)
       IN IF Hit(p) THEN p ELSE IF Hit(c) THEN c ELSE IF Hit(f) THEN f ELSE PipeMsg(x)
(* Store.GetWithContext (resolver-internal DS/DNSKEY sub-queries) *)
PipeGet(x) ==
  LET p == PosGet(x) c == CutMsg(x)
  IN IF Hit(p) THEN p ELSE IF Hit(c) THEN c ELSE FailMsg(x, "sh")

Routes == {"msg", "wire", "get"}
Run(r, x) == CASE r = "msg" -> PipeMsg(x) [] r = "wire" -> PipeWire(x) [] r = "get" -> PipeGet(x)

RouteQueries(r) == IF r = "get" THEN {x \in relq : x.client = "none"} ELSE relq
ObsOf(r) == {o \in {[route |-> r, q |-> x, res |-> Run(r, x)] : x \in RouteQueries(r)} : Hit(o.res)}
ObsNow == ObsOf("msg") \cup ObsOf("wire") \cup ObsOf("get")

(* every preimage a query can compute a key from *)
SeqRange(sq) == {sq[i] : i \in 1..Len(sq)}
QueryPres(x) ==
  {Pre(x.name, x.type, x.class, x.cd, ns) : ns \in {"sh", OwnScope[x.client]} \cup SeqRange(ProbesOf[x.client])}
  \cup {CutPre(sf, x.class) : sf \in SeqRange(SuffixesOf[FoldOf[x.name]])}
RelQueries(dom) == {x \in Queries : QueryPres(x) \cap dom # {}}

(* ------------------------------- actions -------------------------------- *)
IdsOfDom(dom)  == {id \in Idents : PreOfId(id) \in dom}
CutsOfDom == {c \in [name : FNames, class : Classes] : CutPre(c.name, c.class) \in kdom}
(* failure entries are filed under the shared key or a request's own source prefix *)
FailIdsOfDom(dom) == {id \in IdsOfDom(dom) : NormOf[id.scope] \in {OwnScope[c] : c \in Clients}}

(* store.go resetQuestionFailure / FailureCache.ResetQuestion: exact key only *)
ResetFail(f, nm, ty, cl, cd, ns) ==
  LET k == KeyOf(Pre(nm, ty, cl, cd, ns))
  IN IF Has(f, k) /\ f[k] = FEntry(nm, ty, cl, cd, ns) THEN Del(f, k) ELSE f

Tick == steps < MaxSteps /\ steps' = steps + 1 /\ phase = "m"
(* non-purging actions; with PurgeLast the last step is reserved for Purge *)
TickW == Tick /\ (PurgeLast => steps < MaxSteps - 1)
Same == UNCHANGED <<kdom, kfun, ids, fids, relq>>

(* Store.SetFromResponseWithKey / ...Scoped with the key the writer itself computes *)
Store(id) ==
  /\ "pos" \in Kinds /\ TickW
  /\ pos' = Put(pos, KeyOf(PreOfId(id)), Entry(id, 0))
  /\ fail' = IF NormOf[id.scope] = "sh" THEN ResetFail(fail, id.name, id.type, id.class, id.cd, "sh") ELSE fail
  /\ last' = [op |-> "store", id |-> id]
  /\ UNCHANGED <<cuts, chash>> /\ Same

(* the same writers, key of preimage b, entry of identity id *)
StoreForged(b, id) ==
  /\ "pos" \in Kinds /\ TickW /\ b.type # "T0" /\ PreOfId(id) # b
  /\ pos' = Put(pos, KeyOf(b), Entry(id, 0))
  /\ fail' = IF NormOf[id.scope] = "sh" THEN ResetFail(fail, id.name, id.type, id.class, id.cd, "sh") ELSE fail
  /\ last' = [op |-> "forge", under |-> b, id |-> id]
  /\ UNCHANGED <<cuts, chash>> /\ Same

(* Store.ReplaceIfCurrent: the replacement inherits the CD partition and   *)
(* the scope of the entry it replaces, whatever the response header says   *)
Refresh(b, rn, rcd) ==
  /\ "pos" \in Kinds /\ TickW /\ b.type # "T0" /\ Has(pos, KeyOf(b))
  /\ rn \in Names /\ FoldOf[rn] = FoldOf[pos[KeyOf(b)].name] /\ rcd \in BOOLEAN
  /\ pos' = [pos EXCEPT ![KeyOf(b)] = [@ EXCEPT !.name = rn, !.gen = 1]]
  /\ last' = [op |-> "refresh", under |-> b, rn |-> rn, rcd |-> rcd, key |-> KeyOf(b), old |-> pos[KeyOf(b)]]
  /\ UNCHANGED <<fail, cuts, chash>> /\ Same

(* a client query through the pipeline with a caching downstream: a miss   *)
(* resolves and ResponseWriter.WriteMsg files the answer under the key of  *)
(* (question, CD, authority scope rs); resetMatchingFailures               *)
RespScopes(c) == {"sh"} \cup {ProbesOf[c][i] : i \in 1..Len(ProbesOf[c])}
Ask(x, rs) ==
  /\ "ask" \in Kinds /\ TickW /\ x \in relq /\ x.name \in Names /\ rs \in RespScopes(x.client)
  /\ Pre(x.name, x.type, x.class, x.cd, rs) \in kdom
  /\ IF Hit(PipeMsg(x)) THEN UNCHANGED <<pos, fail>>
     ELSE /\ pos' = Put(pos, KeyOf(Pre(x.name, x.type, x.class, x.cd, rs)),
                        [name |-> x.name, type |-> x.type, class |-> x.class, cd |-> x.cd, scope |-> rs, gen |-> 0])
          /\ fail' = LET f1 == IF rs = "sh" THEN ResetFail(fail, x.name, x.type, x.class, x.cd, "sh") ELSE fail
                     IN ResetFail(f1, x.name, x.type, x.class, x.cd, OwnScope[x.client])
  /\ last' = [op |-> "ask", q |-> x, rs |-> rs, hit |-> Hit(PipeMsg(x))]
  /\ UNCHANGED <<cuts, chash>> /\ Same

(* Store.RecordFailure / FailureCache.record: a different key under the hash is replaced *)
RecFail(id) ==
  /\ "fail" \in Kinds /\ TickW
  /\ fail' = Put(fail, KeyOf(PreOfId(id)), FOfId(id))
  /\ last' = [op |-> "recfail", id |-> id]
  /\ UNCHANGED <<pos, cuts, chash>> /\ Same
(* failure identity id filed under the hash of preimage b (overlay shim) *)
ForgeFail(b, id) ==
  /\ "fail" \in Kinds /\ TickW /\ b.type # "T0" /\ PreOfId(id) # b
  /\ fail' = Put(fail, KeyOf(b), FOfId(id))
  /\ last' = [op |-> "forgefail", under |-> b, id |-> id]
  /\ UNCHANGED <<pos, cuts, chash>> /\ Same

(* Store.RecordNXDomainCut: exact map + hash index (last write wins) *)
RecCut(c) ==
  /\ "cut" \in Kinds /\ TickW
  /\ cuts' = cuts \cup {c}
  /\ chash' = Put(chash, KeyOf(CutPre(c.name, c.class)), c)
  /\ last' = [op |-> "reccut", c |-> c]
  /\ UNCHANGED <<pos, fail>> /\ Same
(* index slot of cut preimage b pointed at cut c (overlay shim) *)
ForgeCut(b, c) ==
  /\ "cut" \in Kinds /\ TickW /\ b.type = "T0" /\ CutPre(c.name, c.class) # b
  /\ chash' = Put(chash, KeyOf(b), c)
  /\ last' = [op |-> "forgecut", under |-> b, c |-> c]
  /\ UNCHANGED <<pos, fail, cuts>> /\ Same

(* Store.Purge(q): both CD keys of the shared partition are probed and the  *)
(* slot is emptied when the entry there passes entryMatchesKey for          *)
(* (q, cd, shared) -- purgeVerified; with PurgeByKey (as built before the   *)
(* repair) whatever sits there is removed; scoped entries are swept by      *)
(* question;                                                                *)
(* FailureCache.PurgeQuestion sweeps every CD/scope variant by question;   *)
(* nxDomainCutCache.purge removes every cut covering q.name in q.class     *)
PurgeQs == {q \in [name : Names, type : Types, class : Classes] :
              \E p \in kdom : p.name = FoldOf[q.name] /\ p.class = q.class}
SameQ(e, q) == FoldOf[e.name] = FoldOf[q.name] /\ e.type = q.type /\ e.class = q.class
Covering(q) == {c \in cuts : c.class = q.class /\
                  \E i \in 1..Len(SuffixesOf[FoldOf[q.name]]) : SuffixesOf[FoldOf[q.name]][i] = c.name}
Purge(q) ==
  /\ Tick /\ (PurgeLast => steps = MaxSteps - 1)
  /\ LET own(cd) == KeyOf(Pre(q.name, q.type, q.class, cd, "sh"))
         byKey == IF PurgeByKey THEN {own(cd) : cd \in BOOLEAN}
                  ELSE {k \in DOMAIN pos : \E cd \in BOOLEAN :
                          k = own(cd) /\ SameQ(pos[k], q) /\ pos[k].cd = cd /\ pos[k].scope = "sh"}
         swept == {k \in DOMAIN pos : pos[k].scope # "sh" /\ SameQ(pos[k], q)}
     IN pos' = TLCEval([k \in DOMAIN pos \ (byKey \cup swept) |-> pos[k]])
  /\ fail' = TLCEval([k \in {k \in DOMAIN fail : ~(fail[k].name = FoldOf[q.name] /\ fail[k].type = q.type
                                                     /\ fail[k].class = q.class)} |-> fail[k]])
  /\ cuts' = TLCEval(cuts \ Covering(q))
  /\ chash' = TLCEval([k \in {k \in DOMAIN chash :
                                ~(chash[k] \in Covering(q) /\ k = KeyOf(CutPre(chash[k].name, chash[k].class)))}
                       |-> chash[k]])
  /\ last' = [op |-> "purge", q |-> q]
  /\ Same

Init ==
  /\ kdom \in KDoms
  /\ kfun \in [kdom -> 0..KMax]
  /\ relq = TLCEval(RelQueries(kdom))          \* TLCEval: explicit (not lazily filtered) sets in the state
  /\ ids = TLCEval(IdsOfDom(kdom)) /\ fids = TLCEval(FailIdsOfDom(kdom))
  /\ pos = Empty /\ fail = Empty /\ cuts = {} /\ chash = Empty
  /\ steps = 0 /\ phase = "m"
  /\ last = [op |-> "init"]
  /\ obs = {}

Mutate ==
  \/ \E id \in ids : Store(id)
  \/ \E b \in kdom, id \in ids : StoreForged(b, id)
  \/ \E b \in kdom, rn \in Names, rcd \in BOOLEAN : Refresh(b, rn, rcd)
  \/ \E x \in relq, rs \in NScopes : Ask(x, rs)
  \/ \E id \in fids : RecFail(id)
  \/ \E b \in kdom, id \in fids : ForgeFail(b, id)
  \/ \E c \in CutsOfDom : RecCut(c)
  \/ \E b \in kdom, c \in cuts : ForgeCut(b, c)
  \/ \E q \in PurgeQs : Purge(q)

(* replay configs alternate a mutating step with a step that only recomputes obs, so  *)
(* that simulation does not pay for obs on every candidate successor                  *)
Observe == /\ phase = "o" /\ phase' = "m" /\ obs' = TLCEval(ObsNow)
           /\ UNCHANGED <<kdom, kfun, ids, fids, relq, pos, fail, cuts, chash, steps, last>>
Next == \/ Mutate /\ phase' = (IF WithObs THEN "o" ELSE "m") /\ obs' = obs
        \/ WithObs /\ Observe

Spec == Init /\ [][Next]_vars

(* ------------------------------ properties ------------------------------ *)
(* spec-level meaning of "the question and audience it was stored for" *)
MatchPos(r, x) == /\ FoldOf[r.name] = FoldOf[x.name] /\ r.type = x.type /\ r.class = x.class
                  /\ r.cd = x.cd /\ x.client \in InScope[r.scope]
MatchFail(r, x) == /\ r.name = FoldOf[x.name] /\ r.type = x.type /\ r.class = x.class
                   /\ r.cd = x.cd /\ x.client \in InScope[r.scope]
MatchCut(r, x) == /\ \E i \in 1..Len(SuffixesOf[FoldOf[x.name]]) : SuffixesOf[FoldOf[x.name]][i] = r.name
                  /\ r.class = x.class /\ ~x.cd /\ x.client = "none"
Match(r, x) == CASE r.kind = "pos" -> MatchPos(r, x) [] r.kind = "fail" -> MatchFail(r, x)
                 [] r.kind = "cut" -> MatchCut(r, x) [] OTHER -> TRUE

(* C03: on every route, a hit is an entry stored for exactly this question and audience *)
ExactAudience ==
  \A x \in relq :
    /\ Match(PosMsg(x), x) /\ Match(CutMsg(x), x) /\ Match(FailMsg(x, OwnScope[x.client]), x)
    /\ x.client = "none" =>
         /\ Match(PosWire(x), x) /\ Match(CutWire(x), x) /\ Match(FailWire(x), x)
         /\ Match(PosGet(x), x) /\ Match(FailMsg(x, "sh"), x)
(* the same over the composed ladders, as served *)
ExactAudienceServed ==
  \A x \in relq : /\ Match(PipeMsg(x), x) /\ Match(PipeWire(x), x)
                   /\ x.client = "none" => Match(PipeGet(x), x)
(* obs is exactly the set of served hits (replay configs) *)
ObsFaithful == (WithObs /\ phase = "m") => obs = ObsNow
(* ... and every outcome handed to the conformance driver satisfies the property *)
ObsMatches == \A o \in obs : Match(o.res, o.q)
(* nothing is ever filed under a private key: queries outside relq miss everywhere *)
KeysInDom == /\ DOMAIN pos \subseteq 0..KMax /\ DOMAIN fail \subseteq 0..KMax
             /\ DOMAIN chash \subseteq 0..KMax

(* every stored entry carries the partition of the key it is served under, *)
(* i.e. what is stored equals what the writer was told (no silent widening)*)
TypeOK ==
  /\ \A k \in DOMAIN pos : pos[k].scope \in NScopes /\ pos[k].name \in Names
  /\ \A k \in DOMAIN fail : fail[k].name \in FNames /\ fail[k].scope \in NScopes
  /\ \A k \in DOMAIN chash : chash[k].name \in FNames
  /\ steps \in 0..MaxSteps

(* Purge(q) leaves nothing that any route would still serve for q ... *)
PurgeComplete ==
  [][last'.op = "purge" =>
       \A x \in relq :
          (FoldOf[x.name] = FoldOf[last'.q.name] /\ x.type = last'.q.type /\ x.class = last'.q.class)
            => (~Hit(PipeMsg(x)') /\ ~Hit(PipeWire(x)') /\ (x.client = "none" => ~Hit(PipeGet(x)')))]_vars
(* ... and removes only entries of q: "on every lookup route - ..., purge - *)
(* and even when two different questions collide on the 64-bit cache key,   *)
(* in which case the entry behaves as a miss" -- the entry of another       *)
(* question sitting under q's own key survives (MC_PurgeByKey.cfg is the    *)
(* negative twin: the as-built removal by key violates this)                *)
PurgeExact ==
  [][last'.op = "purge" =>
       /\ \A k \in DOMAIN pos \ DOMAIN pos' : SameQ(pos[k], last'.q)
       /\ \A k \in DOMAIN pos' : pos'[k] = pos[k]
       /\ \A k \in DOMAIN fail \ DOMAIN fail' : SameQ(fail[k], last'.q)
       /\ \A c \in cuts \ cuts' : c.class = last'.q.class /\ MatchCut(HitCut(c), [name |-> last'.q.name,
                 type |-> last'.q.type, class |-> last'.q.class, cd |-> FALSE, client |-> "none"])]_vars
(* a refresh keeps the question, the CD partition and the scope of the key it replaces under *)
RefreshInherits ==
  [][last'.op = "refresh" =>
       LET n == pos'[last'.key] o == last'.old
       IN /\ FoldOf[n.name] = FoldOf[o.name] /\ n.type = o.type /\ n.class = o.class
          /\ n.cd = o.cd /\ n.scope = o.scope]_vars

View == <<kdom, kfun, pos, fail, cuts, chash, steps, phase>>
=============================================================================
