CONSTANTS
  KDoms <- KDomsQuick
  KMax = 1
  MaxSteps = 4
  WithObs = TRUE
  PurgeLast = FALSE
  Kinds = {"pos", "fail", "cut", "ask"}
INIT Init
NEXT Next
CHECK_DEADLOCK FALSE
