CONSTANTS
  KDoms <- KDomsQuick
  KMax = 1
  MaxSteps = 4
  WithObs = TRUE
  PurgeByKey = FALSE
  PurgeLast = FALSE
  Kinds = {"pos", "fail", "cut", "ask"}
INIT Init
NEXT Next
CHECK_DEADLOCK FALSE
