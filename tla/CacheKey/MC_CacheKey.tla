---------------------------- MODULE MC_CacheKey ----------------------------
(* preimage families that receive adversarial keys *)
EXTENDS CacheKey

B0     == Pre("n", "T1", "C1", FALSE, "sh")
Vname  == Pre("e", "T1", "C1", FALSE, "sh")
Vtype  == Pre("n", "T2", "C1", FALSE, "sh")
Vclass == Pre("n", "T1", "C2", FALSE, "sh")
Vcd    == Pre("n", "T1", "C1", TRUE,  "sh")
Va4    == Pre("n", "T1", "C1", FALSE, "a4")
Va4n   == Pre("n", "T1", "C1", FALSE, "a4n")
Vh4    == Pre("n", "T1", "C1", FALSE, "h4")
Vh4b   == Pre("n", "T1", "C1", FALSE, "h4b")
Vb4    == Pre("n", "T1", "C1", FALSE, "b4")
Va6    == Pre("n", "T1", "C1", FALSE, "a6")
Cn1    == CutPre("n", "C1")
Ce1    == CutPre("e", "C1")
Cn2    == CutPre("n", "C2")
Cs1    == CutPre("s", "C1")

(* one dimension at a time against the base question *)
PosPairs   == {{B0, v} : v \in {Vname, Vtype, Vclass, Vcd, Va4, Va4n, Vh4, Vb4, Va6}}
ScopePairs == {{Va4, Va4n}, {Va4, Vb4}, {Va4, Va6}, {Va4n, Vh4}, {Vh4, Vh4b},
               {Va4, Pre("n", "T1", "C1", TRUE, "a4")}, {Va4, Pre("e", "T1", "C1", FALSE, "a4")},
               {Va4, Pre("n", "T2", "C1", FALSE, "a4")}, {Va4, Pre("n", "T1", "C2", FALSE, "a4")}}
CutPairs   == {{Cn1, Ce1}, {Cn1, Cn2}, {Cn1, Cs1}}
Pairs      == PosPairs \cup ScopePairs \cup CutPairs

Triples == {{B0, Vcd, Va4}, {B0, Vname, Vtype}, {B0, Vclass, Vcd}, {Va4, Va4n, Vh4},
            {B0, Va4, Vb4}, {B0, Va4, Va6}, {B0, Cn1, Ce1}, {Vname, Cn1, Cs1},
            {B0, Vname, Pre("e", "T1", "C1", TRUE, "sh")}, {Va4, Va4n, Pre("n", "T1", "C1", TRUE, "a4n")}}
Quads   == {{B0, Vname, Vcd, Va4}, {B0, Va4, Va4n, Vh4}, {B0, Vtype, Vclass, Vcd},
            {B0, Vcd, Cn1, Ce1}}

KDomsQuick    == Pairs
KDomsTriples  == Triples
KDomsQuads    == Quads
KDomsTiny     == {{B0, Vcd}, {B0, Va4}, {Cn1, Ce1}}
KDomsDeep     == Triples \cup Quads
(* purge across the CD / scope / name / type / class partitions and the cut tree *)
KDomsPurge    == {{B0, Vcd}, {B0, Va4}, {Va4, Pre("n", "T1", "C1", TRUE, "a4")}, {Va4, Va4n},
                  {Va4, Pre("e", "T1", "C1", FALSE, "a4")}, {B0, Vname}, {B0, Vtype}, {B0, Vclass},
                  {Cn1, Cs1}, {Cn1, Cn2}, {Cn1, Ce1}}
=============================================================================
