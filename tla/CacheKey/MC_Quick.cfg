CONSTANTS
  KDoms <- KDomsQuick
  KMax = 1
  MaxSteps = 3
  WithObs = FALSE
  PurgeByKey = FALSE
  PurgeLast = FALSE
  Kinds = {"pos", "fail", "cut", "ask"}
INIT Init
NEXT Next
VIEW View
INVARIANTS TypeOK KeysInDom ExactAudience ExactAudienceServed
PROPERTIES PurgeComplete PurgeExact RefreshInherits
CHECK_DEADLOCK FALSE
