CONSTANTS
  KDoms <- KDomsTiny
  KMax = 0
  MaxSteps = 0
  WithObs = FALSE
  PurgeByKey = FALSE
  PurgeLast = FALSE
  Kinds = {}
INIT Init
NEXT Next
VIEW View
CHECK_DEADLOCK FALSE
