CONSTANTS
  KDoms <- KDomsTiny
  KMax = 0
  MaxSteps = 0
  WithObs = FALSE
  Kinds = {}
INIT Init
NEXT Next
VIEW View
CHECK_DEADLOCK FALSE
