CONSTANTS
  KDoms <- KDomsTiny
  KMax = 0
  MaxSteps = 0
  WithObs = FALSE
  PurgeLast = FALSE
  Kinds = {}
INIT Init
NEXT Next
VIEW View
CHECK_DEADLOCK FALSE
