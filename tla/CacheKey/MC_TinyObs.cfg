CONSTANTS
  KDoms <- KDomsTiny
  KMax = 1
  MaxSteps = 2
  WithObs = TRUE
  PurgeByKey = FALSE
  PurgeLast = FALSE
  Kinds = {"pos", "fail", "cut", "ask"}
INIT Init
NEXT Next
VIEW View
INVARIANTS TypeOK KeysInDom ObsFaithful ObsMatches
CHECK_DEADLOCK FALSE
