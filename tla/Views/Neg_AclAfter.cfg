SPECIFICATION Spec
CONSTANTS
  Clients <- MCClients
  Mapped <- MCMapped
  Member <- MCMember
  Configs <- MCConfigs
  Acl <- MCAcl
  EmptyZones <- MCEmptyZones
  ChaosNames <- MCChaosNames
  ChaosKnown <- MCChaosKnown
  ChaosOn <- MCChaosOn
  Names <- MCNames
  Types <- MCTypes
  IntW = 2
  MaxCache = 1
  Mut = "aclafter"
VIEW view
CHECK_DEADLOCK FALSE
INVARIANT DeniedGetsNothing
