SPECIFICATION Spec
CONSTANTS
  Clients <- MCClients
  Mapped <- MCMapped
  Member <- MCMember
  Configs <- MCConfigs
  Acl <- MCAcl
  EmptyZones <- MCEmptyZones
  ChaosNames <- MCChaosNames
  ChaosKnown <- MCChaosKnown
  ChaosOn <- MCChaosOn
  Names <- MCNames
  Types <- MCTypes
  IntW = 2
  MaxCache = 1
  Mut = ""
VIEW view
CHECK_DEADLOCK FALSE
INVARIANT TypeInv
INVARIANT ViewOnlyOwn
INVARIANT OutsideNeverSeesView
INVARIANT InternalBypass
INVARIANT FirstMatch
INVARIANT FirstViewOnly
INVARIANT FallThrough
INVARIANT ViewAnswers
INVARIANT ExactOverWild
INVARIANT ClosestWild
INVARIANT WildStrict
INVARIANT TypeMatch
INVARIANT MappedAsV4
INVARIANT CacheClean
INVARIANT DeniedGetsNothing
INVARIANT AllowedServed
INVARIANT InternalNoAcl
INVARIANT EmptyLocal
INVARIANT ChaosSwitch
INVARIANT ChaosResponds
