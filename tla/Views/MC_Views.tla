------------------------------ MODULE MC_Views ------------------------------
(* the small universe of XVIEWS (real spellings: checks/xviews.py UNIVERSE) *)
EXTENDS Views

na    == <<"a", "example", "lan">>
nb    == <<"b", "example", "lan">>
nx    == <<"x", "sub", "example", "lan">>
nsub  == <<"sub", "example", "lan">>
napex == <<"example", "lan">>
nbx   == <<"bexample", "lan">>
no    == <<"other", "org">>
nrz   == <<"168", "192", "in-addr", "arpa">>
nr1   == <<"1", "1", "168", "192", "in-addr", "arpa">>
nr2   == <<"2", "1", "168", "192", "in-addr", "arpa">>
nr8   == <<"8", "8", "8", "8", "in-addr", "arpa">>
wex   == <<"*", "example", "lan">>
wsub  == <<"*", "sub", "example", "lan">>

nvb   == <<"version", "bind">>
nid   == <<"id", "server">>
nfoo  == <<"foo", "bind">>
MCChaosNames == {nvb, nid, nfoo}
MCChaosKnown == {nvb, nid}
MCNames == {na, nb, nx, nsub, napex, nbx, no, nrz, nr1, nr2, nr8} \cup MCChaosNames
MCTypes == {"A", "AAAA", "TXT", "PTR"}
MCEmptyZones == {nrz}

\* lan 192.168.1.10 | lanm ::ffff:192.168.1.10 | nest 192.168.1.130 | vpn 100.64.0.5 | v6 fd00::5
\* near 192.168.0.255 | out 203.0.113.9 | out6 2001:db8::9
MCClients == {"lan", "lanm", "nest", "vpn", "v6", "near", "out", "out6"}
MCMapped  == [c \in {"lanm"} |-> "lan"]
\* n24 192.168.1.0/24 | n25 192.168.1.128/25 (nested in n24) | nvpn 100.64.0.0/24 | n6 fd00::/64
\* nall4 0.0.0.0/0 | nall6 ::/0 (a catch-all view; it also covers whatever address an internal writer carries)
V4Clients == {"lan", "lanm", "nest", "vpn", "near", "out"}
MCMember  == {<<"lan", "n24">>, <<"lanm", "n24">>, <<"nest", "n24">>, <<"nest", "n25">>, <<"vpn", "nvpn">>, <<"v6", "n6">>}
             \cup {<<c, "nall4">> : c \in V4Clients} \cup {<<c, "nall6">> : c \in MCClients \ V4Clients}

LanView == [nets |-> {"n24"},
            recs |-> {[o |-> na,   t |-> "A",    d |-> "l_a"],
                      [o |-> wex,  t |-> "A",    d |-> "l_w1"],
                      [o |-> wex,  t |-> "A",    d |-> "l_w2"],
                      [o |-> wex,  t |-> "AAAA", d |-> "l_w6"],
                      [o |-> wsub, t |-> "A",    d |-> "l_s"],
                      [o |-> nr1,  t |-> "PTR",  d |-> "l_p"]}]
VpnView == [nets |-> {"n25", "nvpn", "n6"},
            recs |-> {[o |-> wex, t |-> "A",   d |-> "v_w"],
                      [o |-> nb,  t |-> "A",   d |-> "v_b"],
                      [o |-> nb,  t |-> "TXT", d |-> "v_t"],
                      [o |-> no,  t |-> "A",   d |-> "v_o"]}]

AllView == [nets |-> {"nall4", "nall6"},
            recs |-> {[o |-> wex, t |-> "A",    d |-> "all_w"],
                      [o |-> no,  t |-> "AAAA", d |-> "all_o6"]}]

MCConfigs == [k \in {"AB", "BA", "VA", "ACL", "E"} |-> CASE k = "AB" -> <<LanView, VpnView>>
                                             [] k = "VA" -> <<VpnView, AllView>>
                                             [] k = "ACL" -> <<LanView, VpnView>>
                                             [] k = "BA" -> <<VpnView, LanView>>
                                             [] OTHER    -> <<>>]
\* config ACL: lan-then-vpn behind accesslist = [192.168.1.0/24, 100.64.0.0/24]: v6 (in the vpn view) and the outsiders are denied
MCChaosOn == [k \in {"AB", "BA", "VA", "ACL", "E"} |-> k \in {"AB", "VA", "ACL"}]
MCAcl == [k \in {"AB", "BA", "VA", "ACL", "E"} |-> IF k = "ACL" THEN {"n24", "nvpn"} ELSE {}]
=============================================================================
