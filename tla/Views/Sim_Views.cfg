SPECIFICATION Spec
CONSTANTS
  Clients <- MCClients
  Mapped <- MCMapped
  Member <- MCMember
  Configs <- MCConfigs
  Acl <- MCAcl
  EmptyZones <- MCEmptyZones
  ChaosNames <- MCChaosNames
  ChaosKnown <- MCChaosKnown
  ChaosOn <- MCChaosOn
  Names <- MCNames
  Types <- MCTypes
  IntW = 4
  MaxCache = 64
  Mut = ""
CHECK_DEADLOCK FALSE
INVARIANT TypeInv
