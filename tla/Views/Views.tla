------------------------------- MODULE Views -------------------------------
(* XVIEWS -- the per-client static responder `views` (middleware/views/views.go) in front of the cache, as a state machine.

   Statement = the package's own documentation:
     views.go package comment   "A query whose source IP falls inside one of a view's CIDRs gets that view's records as the
                                 response; queries that don't match any view (by source IP or by name) fall through the chain"
                                "Internal sub-queries skip views entirely"
     ServeDNS doc comment       "dispatches a query to the first view whose source CIDR contains the client IP.  If a record
                                 matches the query's name and type, the synthesised reply is written and the chain is
                                 short-circuited; otherwise the request falls through."
     config (sdns.conf text)    "Wildcards [..] are supported.  Exact owners override a covering wildcard.  Views
                                 are evaluated in declaration order."   ViewConfig: "wildcard owners match any name strictly
                                 more specific than the suffix per RFC 4592"
     inline comment             closest encloser: "*.sub.example.lan." wins over a covering "*.example.lan."
     ipset.Contains             "An IPv4-mapped IPv6 address is answered as the IPv4 address it carries"
     sdns.conf accesslist       "Client access control list (ACL): CIDR notation for allowed client IP ranges"; accesslist.go
                                "no reply to client"; ClientOnly: "an internal sub-query isn't denied by a source-IP rule"
     sdns.conf emptyzones       "Empty zones (AS112 - RFC 7534): prevents queries for private IP reverse zones from leaking";
                                views.go: views come first "so an admin-curated answer for a specific client always wins"
     sdns.conf chaos            "CHAOS query responses.  Responds to: version.bind, version.server, hostname.bind, id.server";
                                chaos = true | false
     doc.go / gen.go            accesslist ... chaos ... views, blocklist, as112 ... cache.  views stands ahead of the cache: a view answer short-circuits the chain, so it never reaches
                                the cache below; what falls through is answered (and cached) by the rest of the chain.

   One action: Query(c, n, t, internal).  State: the configuration in force (chosen at Init), the cache behind the views
   (key -> the data it holds), and `last` = the query just asked with its outcome (the oracle the replay compares against;
   hidden by the VIEW in exhaustive configs -- the invariants quantify over EVERY query in every reachable cache state).

   `Mut` selects a model mutant (negative twins); "" = the code as built. *)
EXTENDS Naturals, Sequences, FiniteSets, TLC

CONSTANTS Clients,      \* abstract client addresses
          Mapped,       \* function: v4-mapped client -> the IPv4 client it carries
          Member,       \* set of <<client, net>>: the address lies inside the CIDR (ground truth of the universe)
          Configs,      \* function: config id -> sequence of views [nets: set of nets, recs: set of [o, t, d]]
          Acl,          \* function: config id -> set of nets the access list allows ({} = the open default)
          EmptyZones,   \* the AS112 empty zones (names) of the universe
          ChaosNames,   \* the names of the universe that are asked in class CH (all others in class IN)
          ChaosKnown,   \* those of them the chaos responder knows
          ChaosOn,      \* function: config id -> BOOLEAN (chaos = true | false)
          Names,        \* query names, sequences of labels
          Types,
          MaxCache,
          IntW,         \* one Query in IntW is an internal sub-query in simulation (2 = evenly)
          Mut

VARIABLES cfg, cache, last
vars == <<cfg, cache, last>>
view == <<cfg, cache>>

DOWN == {"down"}
Keys == Names \X Types

------------------------------------------------------------------------------
(* the documentation's reading (independent of Mut) *)

IsWild(o) == o[1] = "*"
Suffix(q, k) == SubSeq(q, Len(q) - k + 1, Len(q))
\* "match any name strictly more specific than the suffix"; non-wildcard owners match exactly
DocMatches(o, q) == IF IsWild(o) THEN Len(q) > Len(o) - 1 /\ Suffix(q, Len(o) - 1) = Tail(o) ELSE o = q

DocIn(c, v) == \E nt \in v.nets : <<c, nt>> \in Member
DocViews(k) == Configs[k]
\* "the first view whose source CIDR contains the client IP", 0 = none
DocFirst(k, c) == LET S == {i \in 1..Len(DocViews(k)) : DocIn(c, DocViews(k)[i])}
                  IN IF S = {} THEN 0 ELSE CHOOSE i \in S : \A j \in S : i <= j

DocExact(v, n, t) == {r \in v.recs : r.t = t /\ ~IsWild(r.o) /\ r.o = n}
DocWild(v, n, t)  == {r \in v.recs : r.t = t /\ IsWild(r.o) /\ DocMatches(r.o, n)}
DocClosest(v, n, t) == {r \in DocWild(v, n, t) : \A s \in DocWild(v, n, t) : Len(s.o) <= Len(r.o)}
Data(R) == {r.d : r \in R}
\* "Exact owners override a covering wildcard"; among wildcards the closest encloser
\* the access list: {} = open
DocAllowed(k, c) == Acl[k] = {} \/ \E nt \in Acl[k] : <<c, nt>> \in Member
\* "apex" = the name is an empty zone, "below" = it lies under one, "no" = not an empty-zone name
DocEmpty(n) == IF n \in EmptyZones THEN "apex"
               ELSE IF \E z \in EmptyZones : Len(n) > Len(z) /\ Suffix(n, Len(z)) = z THEN "below" ELSE "no"
DocAnswer(v, n, t) == IF DocExact(v, n, t) # {} THEN Data(DocExact(v, n, t)) ELSE Data(DocClosest(v, n, t))

------------------------------------------------------------------------------
(* the handler (with mutants) *)

InNet(c, nt) ==
    IF Mut = "nomapped" /\ c \in DOMAIN Mapped THEN FALSE ELSE <<c, nt>> \in Member
InView(c, v) == IF Mut = "leak" THEN TRUE ELSE \E nt \in v.nets : InNet(c, nt)

Matches(o, q) ==
    IF IsWild(o)
    THEN /\ Len(q) >= Len(o) - 1
         /\ Suffix(q, Len(o) - 1) = Tail(o)
         /\ (Mut = "apex" \/ Len(q) > Len(o) - 1)
    ELSE o = q
TypeOK(r, t) == Mut = "anytype" \/ r.t = t

Exact(v, n, t) == {r \in v.recs : TypeOK(r, t) /\ ~IsWild(r.o) /\ r.o = n}
Wild(v, n, t)  == {r \in v.recs : TypeOK(r, t) /\ IsWild(r.o) /\ Matches(r.o, n)}
Closest(v, n, t) ==
    IF Mut = "farwild"
    THEN {r \in Wild(v, n, t) : \A s \in Wild(v, n, t) : Len(s.o) >= Len(r.o)}
    ELSE {r \in Wild(v, n, t) : \A s \in Wild(v, n, t) : Len(s.o) <= Len(r.o)}
Answer(v, n, t) ==
    IF Mut = "wildfirst"
    THEN IF Closest(v, n, t) # {} THEN Data(Closest(v, n, t)) ELSE Data(Exact(v, n, t))
    ELSE IF Exact(v, n, t) # {} THEN Data(Exact(v, n, t)) ELSE Data(Closest(v, n, t))

Matching(k, c) == {i \in 1..Len(Configs[k]) : InView(c, Configs[k][i])}
\* the view the loop stops at (0 = none): the first one containing the client -- it is not left again ("break")
Pick(k, c, n, t) ==
    LET S == Matching(k, c) IN
    IF S = {} THEN 0
    ELSE IF Mut = "lastmatch" THEN CHOOSE i \in S : \A j \in S : i >= j
    ELSE IF Mut = "continue"
         THEN LET W == {i \in S : Answer(Configs[k][i], n, t) # {}}
              IN IF W = {} THEN 0 ELSE CHOOSE i \in W : \A j \in W : i <= j
    ELSE CHOOSE i \in S : \A j \in S : i <= j

Cached(ca, n, t) == {e \in ca : e.k = <<n, t>>}

Allowed(k, c, int) ==
    IF int THEN Mut # "aclint" \/ Acl[k] = {}          \* the mutant judges the internal writer's address: in no list
    ELSE Mut = "aclopen" \/ Acl[k] = {} \/ \E nt \in Acl[k] : InNet(c, nt)
ChaosAnswers(k, n, t) == /\ n \in ChaosKnown /\ t = "TXT" /\ Mut # "chaosdead"
                         /\ (ChaosOn[k] \/ Mut = "chaoson")
Empty(n) == IF Mut = "emptyoff" THEN "no"
            ELSE IF Mut = "emptyapex" /\ DocEmpty(n) = "apex" THEN "below" ELSE DocEmpty(n)

\* the outcome of one query in cache state ca
Outcome(k, ca, c, n, t, int) ==
    LET v   == IF int /\ Mut # "internal" THEN 0 ELSE Pick(k, c, n, t)
        ans == IF v = 0 THEN {} ELSE Answer(Configs[k][v], n, t)
    IN IF /\ ~Allowed(k, c, int) /\ ~(Mut = "aclafter" /\ ans # {})
          /\ ~(Mut = "chaosacl" /\ n \in ChaosNames /\ ChaosAnswers(k, n, t)) THEN [kind |-> "drop", view |-> 0, rrs |-> {}]
       \* class CH: the chaos responder answers what it knows; everything else in that class runs down the chain (no view
       \* or empty zone of the universe covers these names) and is whatever the rest of the chain makes of it
       ELSE IF n \in ChaosNames
            THEN IF ChaosAnswers(k, n, t) THEN [kind |-> "chaos", view |-> 0, rrs |-> {"chaos"}]
                 ELSE [kind |-> "chpass", view |-> 0, rrs |-> {}]
       ELSE IF Mut = "emptyfirst" /\ Empty(n) # "no" THEN [kind |-> "empty", view |-> 0, rrs |-> {Empty(n)}]
       ELSE IF ans # {} THEN [kind |-> "view", view |-> v, rrs |-> ans]
       ELSE IF v # 0 /\ Mut = "stop" THEN [kind |-> "nodata", view |-> v, rrs |-> {}]
       ELSE IF Empty(n) # "no" THEN [kind |-> "empty", view |-> 0, rrs |-> {Empty(n)}]
       ELSE IF Cached(ca, n, t) # {}
            THEN [kind |-> "cached", view |-> 0, rrs |-> (CHOOSE e \in Cached(ca, n, t) : TRUE).rrs]
       ELSE [kind |-> "pass", view |-> 0, rrs |-> DOWN]

NextCache(ca, n, t, o) ==
    IF Cached(ca, n, t) # {} \/ Cardinality(ca) >= MaxCache THEN ca
    ELSE IF o.kind = "pass" THEN ca \cup {[k |-> <<n, t>>, rrs |-> DOWN]}
    ELSE IF o.kind = "view" /\ Mut = "cacheview" THEN ca \cup {[k |-> <<n, t>>, rrs |-> o.rrs]}
    ELSE ca

Init == /\ cfg \in DOMAIN Configs
        /\ cache = {}
        /\ last = [c |-> "-", n |-> <<>>, t |-> "-", int |-> FALSE, kind |-> "none", view |-> 0, rrs |-> {}]

Query(c, n, t, int) ==
    LET o == Outcome(cfg, cache, c, n, t, int) IN
    /\ last' = [c |-> c, n |-> n, t |-> t, int |-> int, kind |-> o.kind, view |-> o.view, rrs |-> o.rrs]
    /\ cache' = NextCache(cache, n, t, o)
    /\ UNCHANGED cfg

Next == \E c \in Clients, n \in Names, t \in Types, w \in 1..IntW : Query(c, n, t, w = 1)
Spec == Init /\ [][Next]_vars

------------------------------------------------------------------------------
(* properties: every query in every reachable state *)

AllQ(P(_, _, _, _, _)) ==
    \A c \in Clients, n \in Names, t \in Types, int \in BOOLEAN : P(c, n, t, int, Outcome(cfg, cache, c, n, t, int))

\* a client is answered only from a view its address belongs to, and only with records that view lists
ViewOnlyOwn == AllQ(LAMBDA c, n, t, int, o :
    o.kind = "view" => /\ DocIn(c, Configs[cfg][o.view])
                       /\ o.rrs \subseteq Data(Configs[cfg][o.view].recs))
\* a client outside every view never sees view data (not from the handler, not from the cache behind it)
OutsideNeverSeesView == AllQ(LAMBDA c, n, t, int, o :
    DocFirst(cfg, c) = 0 => o.kind \in {"pass", "cached", "drop", "empty", "chaos", "chpass"} /\ (o.kind \in {"pass", "cached"} => o.rrs = DOWN))
\* internal sub-queries skip views entirely
InternalBypass == AllQ(LAMBDA c, n, t, int, o :
    int => o.kind \in {"pass", "cached", "drop", "empty", "chaos", "chpass"} /\ (o.kind \in {"pass", "cached"} => o.rrs = DOWN))
\* declaration order: the first view containing the client
FirstMatch == AllQ(LAMBDA c, n, t, int, o : o.kind = "view" => o.view = DocFirst(cfg, c))
\* the first view is not left again: no record there = the request falls through (a later view is not consulted)
FirstViewOnly == AllQ(LAMBDA c, n, t, int, o :
    ~int /\ DocFirst(cfg, c) # 0 /\ DocAnswer(Configs[cfg][DocFirst(cfg, c)], n, t) = {} => o.kind # "view")
\* ... and falls through: the rest of the chain answers
FallThrough == AllQ(LAMBDA c, n, t, int, o :
    ~int /\ DocFirst(cfg, c) # 0 /\ DocAnswer(Configs[cfg][DocFirst(cfg, c)], n, t) = {}
        => o.kind \in {"pass", "cached", "view", "drop", "empty", "chaos", "chpass"} /\ (o.kind \in {"pass", "cached"} => o.rrs = DOWN))
\* a client inside a view gets that view's matching answer
ViewAnswers == AllQ(LAMBDA c, n, t, int, o :
    ~int /\ DocAllowed(cfg, c) /\ DocFirst(cfg, c) # 0 /\ DocAnswer(Configs[cfg][DocFirst(cfg, c)], n, t) # {} => o.kind = "view")
ExactOverWild == AllQ(LAMBDA c, n, t, int, o :
    o.kind = "view" /\ DocExact(Configs[cfg][o.view], n, t) # {} => o.rrs = Data(DocExact(Configs[cfg][o.view], n, t)))
ClosestWild == AllQ(LAMBDA c, n, t, int, o :
    o.kind = "view" /\ DocExact(Configs[cfg][o.view], n, t) = {} => o.rrs = Data(DocClosest(Configs[cfg][o.view], n, t)))
\* every record served is owned by a name that covers the question (a wildcard does not cover its own apex)
WildStrict == AllQ(LAMBDA c, n, t, int, o :
    o.kind = "view" => \A d \in o.rrs : \E r \in Configs[cfg][o.view].recs : r.d = d /\ DocMatches(r.o, n))
TypeMatch == AllQ(LAMBDA c, n, t, int, o :
    o.kind = "view" => \A d \in o.rrs : \E r \in Configs[cfg][o.view].recs : r.d = d /\ r.t = t)
\* a v4-mapped client is the IPv4 client it carries
MappedAsV4 == \A c \in DOMAIN Mapped : \A n \in Names, t \in Types :
    Outcome(cfg, cache, c, n, t, FALSE) = Outcome(cfg, cache, Mapped[c], n, t, FALSE)
\* the access list: a client outside the allowed ranges gets nothing (no view data, no downstream data, no empty-zone answer)
DeniedGetsNothing == AllQ(LAMBDA c, n, t, int, o : ~int /\ ~DocAllowed(cfg, c) => o.kind = "drop")
AllowedServed == AllQ(LAMBDA c, n, t, int, o : ~int /\ DocAllowed(cfg, c) => o.kind # "drop")
\* an internal sub-query is not denied by a source-IP rule
InternalNoAcl == AllQ(LAMBDA c, n, t, int, o : int => o.kind # "drop")
\* empty zones: what no view answers for the client is answered locally, never by the rest of the chain (no leak, not cached)
EmptyLocal == AllQ(LAMBDA c, n, t, int, o :
    DocEmpty(n) # "no" => o.kind \in {"empty", "view", "drop"} /\ (o.kind = "empty" => o.rrs = {DocEmpty(n)}))
\* chaos = false: the responder is silent; chaos = true: every allowed client is told (inside a view or not)
ChaosSwitch == AllQ(LAMBDA c, n, t, int, o : ~ChaosOn[cfg] => o.kind # "chaos")
ChaosResponds == AllQ(LAMBDA c, n, t, int, o :
    ~int /\ DocAllowed(cfg, c) /\ ChaosOn[cfg] /\ n \in ChaosKnown /\ t = "TXT" => o.kind = "chaos")
\* a view answer stops the chain: the cache behind the views holds downstream data only
CacheClean == \A e \in cache : e.rrs = DOWN

TypeInv == /\ cfg \in DOMAIN Configs
           /\ Cardinality(cache) <= MaxCache
           /\ last.kind \in {"none", "view", "pass", "cached", "nodata", "drop", "empty", "chaos", "chpass"}
=============================================================================
