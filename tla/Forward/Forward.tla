------------------------------- MODULE Forward -------------------------------
(***************************************************************************)
(* Forwarder + failover upstream selection of sdns, one client query.      *)
(*                                                                         *)
(*   middleware/forwarder/forwarder.go   Forwarder.ServeDNS                *)
(*   middleware/failover/failover.go     ResponseWriter.WriteMsg           *)
(*   internal/dnsclient/client.go        Client.Exchange (UDP, TC->TCP)    *)
(*   middleware/resolution_attempt.go    ResolutionAttemptGuard.Begin      *)
(*   middleware/recursion_work.go        RecursionWorkLedger.Debit         *)
(*                                                                         *)
(* The default chain is  cache -> failover -> resolver(skipped) ->         *)
(* forwarder: the forwarder walks cfg.ForwarderServers (1..NF) once, in    *)
(* order, and writes exactly one message m through failover's writer       *)
(* wrapper; the wrapper either passes m on or walks cfg.FallbackServers    *)
(* (NF+1..NF+NB) once.  One action per step of the code:                   *)
(*                                                                         *)
(*   FwdServe          ServeDNS entry: guard anchored, WithTimeout(QT)     *)
(*   FwdNext / FoNext  the `for _, server := range servers` head (the      *)
(*                     failover loop re-checks the request context there)  *)
(*   BeforeAttemptCtx  Client.Exchange: contextutil.EffectiveError(ctx)    *)
(*   GuardBegin        BeforeAttempt: BeginResolutionAttempt (<= 3 per     *)
(*                     (question, endpoint, transport) in a request tree)  *)
(*   Debit             BeforeAttempt: DebitRecursionWork(OutboundQuery)    *)
(*   Send              the datagram / TCP query leaves (dial + WriteMsg)   *)
(*   Recv              ReadMsg + ID / question validation, the outcome of  *)
(*                     the attempt; the upstream's behaviour (a fault name)*)
(*                     is chosen by TLC here.  A TC=1 UDP answer re-enters *)
(*                     Exchange over TCP (BeforeAttempt runs again).       *)
(*   FwdFinish         after the loop: first SERVFAIL kept / request-local *)
(*                     SERVFAIL / CancelWithRcode(SERVFAIL)                *)
(*   FoWriteMsg        failover's guards on m                              *)
(*   FoFinish          after the fallback loop                             *)
(*   Deliver           the writer below failover (cache -> ... -> client)  *)
(*   Tick              (MC configs only) the clock moves between steps     *)
(*                                                                         *)
(* Two dimensions beyond the walk itself:                                  *)
(*   prework   the resolution below failover (validation, sub-queries) was *)
(*             rejected on a NON-outbound budget of the request tree       *)
(*             (internal sub-queries, DNSKEY candidates, signatures per    *)
(*             RRset, signatures, DS digests, NSEC3 hashes, crypto slots)  *)
(*             before any packet left: in enforce mode the tree's ledger   *)
(*             is latched and the primary writes the over-budget SERVFAIL  *)
(*             while the OUTBOUND budget still has room - only failover's  *)
(*             up-front guard (LatchGuard) keeps the fallback pool out of  *)
(*             it; in shadow / off the same work is only counted.          *)
(*   id        whose transaction ID a message carries: the client's        *)
(*             ("client": built from the request, or stamped) or the ID    *)
(*             of the server's own fallback query ("own": failover builds  *)
(*             a fresh request with SetQuestion, the fallback's response   *)
(*             echoes THAT id until `resp.Id = m.Id` runs - StampFirst:    *)
(*             before the response is classified, so the retained          *)
(*             failureResponse is stamped too).                            *)
(*                                                                         *)
(* Time is a Nat; only timeouts (and Tick) move it.  A forwarder attempt   *)
(* waits min(T, QT - now) (Client.Timeout = cfg.Timeout and the context    *)
(* deadline), a failover attempt min(FoCap, QT - now) (no Client.Timeout,  *)
(* a 5 s child context of the request).                                    *)
(*                                                                         *)
(* Deliberate deviations: one question, RD=1, cfg.DNSSEC=off; only         *)
(* NOERROR and NXDOMAIN are relayed (dnsutil.ClassifyResponse), every      *)
(* other rcode is a failure kept like SERVFAIL ("refused" stands for       *)
(* them) - but failover only walks over a SERVFAIL; a TCP dial             *)
(* never fails; the ErrFailureProbeLimit guard of failover is not          *)
(* reachable in forwarder mode and is left out; DoT/DoH upstreams differ   *)
(* from UDP by having no TC fallback and by failing at once on a wrong      *)
(* transaction ID (FwdStream; their first attempt is still called "udp"    *)
(* here, a DoH attempt waits for the whole window: T = QT in its configs); *)
(* the pre-exhausted guard tuples `pre` stand for attempts the same        *)
(* request tree made before it reached the forwarder; likewise `prework`   *)
(* stands for the resolver below failover (in forwarder mode nothing       *)
(* consumes the non-outbound budgets): the replay spends it on the real    *)
(* ledger between failover and the forwarder and answers as the resolver   *)
(* handler answers a refused resolution.                                   *)
(***************************************************************************)
EXTENDS Integers, FiniteSets, Sequences, TLC

CONSTANTS
  NF,             \* number of forwarders (>= 1)
  NB,             \* number of fallback servers (>= 0)
  Faults,         \* fault names an upstream may play on its UDP attempt
  Modes,          \* SUBSET {"off", "shadow", "enforce"}: recursion firewall mode, chosen per behaviour
  Caps,           \* outbound budgets (max_outbound_queries), chosen per behaviour
  MaxPre,         \* at most this many guard tuples are already exhausted on arrival
  T, QT, FoCap,   \* forwarder per-attempt timeout, query window, failover per-endpoint ceiling
  Ticks,          \* TRUE: the clock may also move between steps (exhaustive configs)
  FwdStream,      \* TRUE: the forwarders are stream upstreams (tls:// DoT or https:// DoH): no UDP, no TC fallback
  PreWorks,       \* SUBSET WorkKinds \cup {"none"}: the non-outbound budget the primary resolution was rejected on
  \* mutant switches: TRUE in the code; FALSE switches a guard off (negative configs)
  DebitFirst,     \* BeforeAttempt debits the ledger before the attempt is made
  CheckMatch,     \* a response to another question is an error, never relayed
  StopAtDeadline, \* attempts are cut at the request deadline and the walk stops there
  LatchGuard,     \* failover hands a latched tree's SERVFAIL on as the over-budget reply before it looks at the pool
  StampFirst      \* failover stamps the client's ID on a fallback response before it classifies it

MaxAtt == 3
(* every budget of the ledger but the outbound one (middleware.RecursionWorkKind) *)
WorkKinds == {"internal", "dnskey", "rrsig", "signature", "dsdigest", "nsec3", "crypto"}
Protos == {"udp", "tcp"}
Fwd == 1..NF
Fb == (NF + 1)..(NF + NB)
Srv == 1..(NF + NB)
Tuples == Srv \X Protos
Min(a, b) == IF a < b THEN a ELSE b

AllFaults == {"answer", "strayAnswer", "nxdomain", "refused", "servfail", "drop", "delay", "wrongId", "garbage",
              "wrongQuestion", "tcAnswer", "tcStall", "tcReset", "tcWrongId", "tcServfail"}

(* what Conn.Exchange makes of the upstream's behaviour *)
UdpClass(f) ==
  CASE f \in {"answer", "strayAnswer", "nxdomain"} -> "ok" \* strayAnswer: a wrong-ID datagram first, skipped
    [] f \in {"servfail", "refused"} -> "fail"               \* ClassifyResponse: every rcode but NOERROR / NXDOMAIN
    [] f \in {"drop", "delay", "wrongId"} -> "timeout"        \* wrong IDs are skipped until the read deadline
    [] f = "garbage" -> "err"
    [] f = "wrongQuestion" -> IF CheckMatch THEN "err" ELSE "ok"
    [] f \in {"tcAnswer", "tcStall", "tcReset", "tcWrongId", "tcServfail"} -> "tc"
(* a DoT / DoH forwarder: one framed response per query, a wrong transaction ID is an error at once *)
StreamClass(f) ==
  CASE f \in {"answer", "nxdomain"} -> "ok"
    [] f \in {"servfail", "refused", "tcServfail"} -> "fail"
    [] f \in {"drop", "delay", "tcStall"} -> "timeout"
    [] f = "wrongQuestion" -> IF CheckMatch THEN "err" ELSE "ok"
    [] OTHER -> "err"
TcpClass(f) ==
  CASE f = "tcAnswer" -> "ok"
    [] f = "tcStall" -> "timeout"
    [] f \in {"tcReset", "tcWrongId"} -> "err"
    [] f = "tcServfail" -> "fail"
    [] OTHER -> "err"
Rc(f) == IF f = "nxdomain" THEN "nxdomain" ELSE "noerror"
FailRc(f) == IF f = "refused" THEN "refused" ELSE "servfail"

Marks == {"none", "attempt", "deadline"}
(* id: whose transaction ID the message carries.  A relayed answer is stamped on the success path of both walks;
   the synthesised failures are built from the client's request (SetRcode / SetRcodeWithEDE / CancelWithRcode);
   a retained upstream failure carries what it carried when it was retained (fid) *)
NoMsg == [kind |-> "none", from |-> 0, rc |-> "none", mark |-> "none", ok |-> TRUE, id |-> "none"]
Relay(s, f) == [kind |-> "relay", from |-> s, rc |-> Rc(f), mark |-> "none", ok |-> f # "wrongQuestion", id |-> "client"]
UpFail(s, rc, mk, i) == [kind |-> "upfail", from |-> s, rc |-> rc, mark |-> mk, ok |-> TRUE, id |-> i]
LocalFail(mk) == [kind |-> "localfail", from |-> 0, rc |-> "servfail", mark |-> mk, ok |-> TRUE, id |-> "client"]
PlainFail == [kind |-> "plainfail", from |-> 0, rc |-> "servfail", mark |-> "none", ok |-> TRUE, id |-> "client"]
WorkFail == [kind |-> "workfail", from |-> 0, rc |-> "servfail", mark |-> "none", ok |-> TRUE, id |-> "client"]
(* MarkRequestLocalFailureResponse: the first mark on a message wins *)
Mark(msg, mk) == IF msg.mark = "none" THEN [msg EXCEPT !.mark = mk] ELSE msg

VARIABLES
  mode, cap,      \* configuration of this behaviour
  pre,            \* guard tuples exhausted before the forwarder ran
  prework,        \* the non-outbound budget the primary resolution runs into ("none": it needs none of that work)
  pc, lvl,        \* control point; whose walk: "fwd" | "fo"
  idx, cur, proto,\* next list position, server and transport of the attempt in progress
  pend,           \* the fault of the server whose TC=1 answer is being retried over TCP ("none" otherwise)
  now,
  guard,          \* [Tuples -> 0..MaxAtt]  ResolutionAttemptGuard counters
  debits,         \* ledger outbound counter (accepted debits; 0 in mode off)
  passes,         \* ghost: BeforeAttempt calls that returned nil
  latched,        \* the ledger latched an enforcement rejection
  fresp, frc, fid,\* failureResponse of the running walk: the server it came from (0 = nil), its rcode, whose ID it carries
  lerr,           \* requestLocalErr of the running walk
  m,              \* what the forwarder wrote into failover's wrapper
  reply, replies, replyAt,
  engaged, entry, \* failover started its walk; ghost: the guards' inputs at FoWriteMsg
  nsent, wire,    \* packets the upstreams received: total, per tuple
  sent, script    \* history: <<server, proto, debits>> per packet; the fault each server played

vars == <<mode, cap, pre, prework, pc, lvl, idx, cur, proto, pend, now, guard, debits, passes, latched, fresp, frc, fid, lerr, m,
          reply, replies, replyAt, engaged, entry, nsent, wire, sent, script>>
(* the exhaustive configs identify states that differ only in the two history variables *)
View == <<mode, cap, pre, prework, pc, lvl, idx, cur, proto, pend, now, guard, debits, passes, latched, fresp, frc, fid, lerr, m,
          reply, replies, replyAt, engaged, entry, nsent, wire>>

PCs == {"serve", "next", "ctx", "guard", "debit", "send", "recv", "finish", "fo", "deliver", "done"}

Init ==
  /\ mode \in Modes /\ cap \in Caps
  /\ pre \in {P \in SUBSET Tuples : Cardinality(P) <= MaxPre}
  /\ prework \in PreWorks
  /\ pc = "serve" /\ lvl = "fwd" /\ idx = 1 /\ cur = 0 /\ proto = "udp" /\ pend = "none" /\ now = 0
  /\ guard = [t \in Tuples |-> IF t \in pre THEN MaxAtt ELSE 0]
  /\ debits = 0 /\ passes = 0 /\ latched = FALSE /\ fresp = 0 /\ frc = "none" /\ fid = "none" /\ lerr = "none"
  /\ m = NoMsg /\ reply = NoMsg /\ replies = 0 /\ replyAt = 0
  /\ engaged = FALSE /\ entry = [rc |-> "none", latched |-> FALSE, expired |-> FALSE]
  /\ nsent = 0 /\ wire = [t \in Tuples |-> 0] /\ sent = <<>> /\ script = [s \in Srv |-> "none"]

hist == <<sent, script>>
cfgv == <<mode, cap, pre, prework>>

(* the writer below failover: what reaches the cache and the client *)
Out(msg) == reply' = msg /\ pc' = "deliver"

(* The resolution below failover starts.  Work on a non-outbound budget comes first (prework): in enforce mode the
   debit is refused, the ledger latches that kind as the tree's first rejection and the primary answers the
   over-budget SERVFAIL (resolver.DNSHandler: SetRcodeWithEDE + request-local mark) without having sent a packet -
   the outbound counter is untouched, BeforeAttempt's debit would still pass.  Shadow / off: counted only. *)
FwdServe ==
  /\ pc = "serve"
  /\ IF prework # "none" /\ mode = "enforce"
       THEN latched' = TRUE /\ m' = WorkFail /\ pc' = "fo"
       ELSE pc' = "next" /\ UNCHANGED <<latched, m>>
  /\ UNCHANGED <<cfgv, lvl, idx, cur, proto, pend, now, guard, debits, passes, fresp, frc, fid, lerr, reply, replies,
                 replyAt, engaged, entry, nsent, wire, hist>>

FwdNext ==
  /\ pc = "next" /\ lvl = "fwd"
  /\ IF idx > NF
       THEN pc' = "finish" /\ UNCHANGED <<idx, cur, proto>>
       ELSE pc' = "ctx" /\ cur' = idx /\ proto' = "udp" /\ idx' = idx + 1
  /\ pend' = "none"
  /\ UNCHANGED <<cfgv, lvl, now, guard, debits, passes, latched, fresp, frc, fid, lerr, m, reply, replies, replyAt, engaged,
                 entry, nsent, wire, hist>>

(* the request window is gone: the forwarder breaks out of its loop with a request-local cause, failover hands
   the primary failure on (marked request-local) *)
Expired(l) ==
  IF l = "fwd"
    THEN /\ lerr' = IF lerr = "none" THEN "deadline" ELSE lerr
         /\ pc' = "finish" /\ UNCHANGED reply
    ELSE /\ Out(Mark(m, "deadline")) /\ UNCHANGED lerr

BeforeAttemptCtx(l) ==
  /\ pc = "ctx" /\ lvl = l
  /\ IF StopAtDeadline /\ now >= QT
       THEN Expired(l)
       ELSE pc' = "guard" /\ UNCHANGED <<lerr, reply>>
  /\ UNCHANGED <<cfgv, lvl, idx, cur, proto, pend, now, guard, debits, passes, latched, fresp, frc, fid, m, replies, replyAt,
                 engaged, entry, nsent, wire, hist>>

GuardBegin(l) ==
  /\ pc = "guard" /\ lvl = l
  /\ LET t == <<cur, proto>> IN
     IF guard[t] >= MaxAtt
       THEN \* ErrResolutionAttemptLimit: request-local, try the next endpoint
            /\ lerr' = IF lerr = "none" THEN "attempt" ELSE lerr
            /\ pc' = "next" /\ UNCHANGED guard
       ELSE /\ guard' = [guard EXCEPT ![t] = @ + 1]
            /\ pc' = "debit" /\ UNCHANGED lerr
  /\ UNCHANGED <<cfgv, lvl, idx, cur, proto, pend, now, debits, passes, latched, fresp, frc, fid, m, reply, replies, replyAt,
                 engaged, entry, nsent, wire, hist>>

Debit(l) ==
  /\ pc = "debit" /\ lvl = l
  /\ IF ~DebitFirst
       THEN pc' = "send" /\ UNCHANGED <<debits, passes, latched, m, reply>>
       ELSE
     CASE mode = "off" ->
            /\ passes' = passes + 1 /\ pc' = "send" /\ UNCHANGED <<debits, latched, m, reply>>
       [] mode = "shadow" ->
            /\ debits' = debits + 1 /\ passes' = passes + 1 /\ pc' = "send" /\ UNCHANGED <<latched, m, reply>>
       [] mode = "enforce" ->
            IF debits >= cap
              THEN \* ErrRecursionWorkLimit: SERVFAIL + EDE, no further endpoint
                   /\ latched' = TRUE /\ UNCHANGED <<debits, passes>>
                   /\ IF l = "fwd" THEN m' = WorkFail /\ pc' = "fo" /\ UNCHANGED reply
                                   ELSE Out(WorkFail) /\ UNCHANGED m
              ELSE /\ debits' = debits + 1 /\ passes' = passes + 1 /\ pc' = "send"
                   /\ UNCHANGED <<latched, m, reply>>
  /\ UNCHANGED <<cfgv, lvl, idx, cur, proto, pend, now, guard, fresp, frc, fid, lerr, replies, replyAt, engaged, entry, nsent,
                 wire, hist>>

Send(l, s, p) ==
  /\ pc = "send" /\ lvl = l /\ cur = s /\ proto = p
  /\ nsent' = nsent + 1
  /\ wire' = [wire EXCEPT ![<<s, p>>] = @ + 1]
  /\ sent' = Append(sent, <<s, p, debits>>)
  /\ pc' = "recv"
  /\ UNCHANGED <<cfgv, lvl, idx, cur, proto, pend, now, guard, debits, passes, latched, fresp, frc, fid, lerr, m, reply, replies,
                 replyAt, engaged, entry, script>>

Recv(l, f) ==
  /\ pc = "recv" /\ lvl = l /\ f \in Faults
  /\ IF proto = "udp" THEN pend = "none" ELSE f = pend
  /\ script' = [script EXCEPT ![cur] = f]
  /\ LET cls == IF proto = "tcp" THEN TcpClass(f)
                ELSE IF FwdStream /\ cur \in Fwd THEN StreamClass(f) ELSE UdpClass(f)
         to == IF l = "fwd" THEN T ELSE FoCap
         nw == IF cls # "timeout" THEN now
               ELSE IF StopAtDeadline THEN Min(now + to, QT) ELSE now + to
         gone == StopAtDeadline /\ nw >= QT
     IN
     /\ now' = nw
     /\ CASE gone ->
               \* Exchange returns the context's error whatever was read
               /\ Expired(l) /\ UNCHANGED <<m, fresp, frc, fid, proto>>
          [] ~gone /\ cls = "ok" ->
               /\ IF l = "fwd" THEN m' = Relay(cur, f) /\ pc' = "fo" /\ UNCHANGED reply
                               ELSE Out(Relay(cur, f)) /\ UNCHANGED m
               /\ UNCHANGED <<fresp, frc, fid, lerr, proto>>
          [] ~gone /\ cls = "fail" ->
               /\ fresp' = IF fresp = 0 THEN cur ELSE fresp
               /\ frc' = IF fresp = 0 THEN FailRc(f) ELSE frc
               \* the forwarder asks under the client's own request; failover under a request of its own
               /\ fid' = IF fresp # 0 THEN fid ELSE IF l = "fo" /\ ~StampFirst THEN "own" ELSE "client"
               /\ pc' = "next" /\ UNCHANGED <<m, reply, lerr, proto>>
          [] ~gone /\ cls \in {"err", "timeout"} ->
               /\ pc' = "next" /\ UNCHANGED <<m, reply, fresp, frc, fid, lerr, proto>>
          [] ~gone /\ cls = "tc" ->
               /\ proto' = "tcp" /\ pc' = "ctx" /\ UNCHANGED <<m, reply, fresp, frc, fid, lerr>>
     /\ pend' = IF proto = "udp" /\ cls = "tc" /\ ~gone THEN f ELSE "none"
  /\ UNCHANGED <<cfgv, lvl, idx, cur, guard, debits, passes, latched, replies, replyAt, engaged, entry, nsent,
                 wire, sent>>

FwdFinish ==
  /\ pc = "finish" /\ lvl = "fwd"
  /\ m' = IF fresp # 0 THEN UpFail(fresp, frc, lerr, fid)
          ELSE IF lerr # "none" THEN LocalFail(lerr) ELSE PlainFail
  /\ pc' = "fo"
  /\ UNCHANGED <<cfgv, lvl, idx, cur, proto, pend, now, guard, debits, passes, latched, fresp, frc, fid, lerr, reply, replies,
                 replyAt, engaged, entry, nsent, wire, hist>>

(* failover's first guard on a SERVFAIL: the request tree carries a latched enforcement rejection (of ANY budget) *)
Stop == LatchGuard /\ latched
FoWriteMsg ==
  /\ pc = "fo"
  /\ entry' = [rc |-> m.rc, latched |-> latched, expired |-> StopAtDeadline /\ now >= QT]
  /\ CASE NB = 0 \/ m.rc # "servfail" ->
            Out(m) /\ UNCHANGED <<lvl, idx, fresp, frc, fid, lerr, engaged>>
       [] NB > 0 /\ m.rc = "servfail" /\ Stop ->          \* RecursionWorkEnforcementError(ctx) != nil
            Out(WorkFail) /\ UNCHANGED <<lvl, idx, fresp, frc, fid, lerr, engaged>>
       [] NB > 0 /\ m.rc = "servfail" /\ ~Stop /\ StopAtDeadline /\ now >= QT ->
            Out(Mark(m, "deadline")) /\ UNCHANGED <<lvl, idx, fresp, frc, fid, lerr, engaged>>
       [] NB > 0 /\ m.rc = "servfail" /\ ~Stop /\ ~(StopAtDeadline /\ now >= QT) ->
            /\ engaged' = TRUE /\ lvl' = "fo" /\ idx' = 1 /\ fresp' = 0 /\ frc' = "none" /\ fid' = "none" /\ lerr' = m.mark
            /\ pc' = "next" /\ UNCHANGED reply
  /\ UNCHANGED <<cfgv, cur, proto, pend, now, guard, debits, passes, latched, m, replies, replyAt, nsent, wire, hist>>

FoNext ==
  /\ pc = "next" /\ lvl = "fo"
  /\ IF idx > NB
       THEN pc' = "finish" /\ UNCHANGED <<idx, cur, proto, reply>>
       ELSE IF StopAtDeadline /\ now >= QT
         THEN Out(Mark(m, "deadline")) /\ UNCHANGED <<idx, cur, proto>>
         ELSE pc' = "ctx" /\ cur' = NF + idx /\ proto' = "udp" /\ idx' = idx + 1 /\ UNCHANGED reply
  /\ pend' = "none"
  /\ UNCHANGED <<cfgv, lvl, now, guard, debits, passes, latched, fresp, frc, fid, lerr, m, replies, replyAt, engaged, entry,
                 nsent, wire, hist>>

FoFinish ==
  /\ pc = "finish" /\ lvl = "fo"
  /\ Out(IF fresp # 0 THEN UpFail(fresp, frc, lerr, fid) ELSE Mark(m, lerr))
  /\ UNCHANGED <<cfgv, lvl, idx, cur, proto, pend, now, guard, debits, passes, latched, fresp, frc, fid, lerr, m, replies, replyAt,
                 engaged, entry, nsent, wire, hist>>

Deliver ==
  /\ pc = "deliver"
  /\ replies' = replies + 1 /\ replyAt' = now /\ pc' = "done"
  /\ UNCHANGED <<cfgv, lvl, idx, cur, proto, pend, now, guard, debits, passes, latched, fresp, frc, fid, lerr, m, reply, engaged,
                 entry, nsent, wire, hist>>

Tick ==
  /\ Ticks /\ pc \notin {"done", "deliver", "recv"} /\ now < QT
  /\ now' = now + 1
  /\ UNCHANGED <<cfgv, pc, lvl, idx, cur, proto, pend, guard, debits, passes, latched, fresp, frc, fid, lerr, m, reply, replies,
                 replyAt, engaged, entry, nsent, wire, hist>>

Next ==
  \/ FwdServe \/ FwdNext \/ FwdFinish \/ FoWriteMsg \/ FoNext \/ FoFinish \/ Deliver \/ Tick
  \/ \E l \in {"fwd", "fo"} :
       \/ BeforeAttemptCtx(l) \/ GuardBegin(l) \/ Debit(l)
       \/ \E s \in Srv, p \in Protos : Send(l, s, p)
       \/ \E f \in Faults : Recv(l, f)

Spec == Init /\ [][Next]_vars
FairSpec == Spec /\ WF_vars(Next)

---------------------------------------------------------------------------
MsgOK(x) == /\ x.kind \in {"none", "relay", "upfail", "localfail", "plainfail", "workfail"}
            /\ x.from \in 0..(NF + NB) /\ x.rc \in {"none", "noerror", "nxdomain", "refused", "servfail"}
            /\ x.mark \in Marks /\ x.ok \in BOOLEAN /\ x.id \in {"none", "client", "own"}

TypeOK ==
  /\ mode \in Modes /\ cap \in Caps /\ pre \subseteq Tuples /\ prework \in WorkKinds \cup {"none"}
  /\ pc \in PCs /\ lvl \in {"fwd", "fo"} /\ idx \in 1..(NF + NB + 1) /\ cur \in 0..(NF + NB) /\ proto \in Protos
  /\ pend \in AllFaults \cup {"none"}
  /\ now \in Nat /\ guard \in [Tuples -> 0..MaxAtt]
  /\ debits \in Nat /\ passes \in Nat /\ latched \in BOOLEAN
  /\ fresp \in 0..(NF + NB) /\ frc \in {"none", "refused", "servfail"} /\ fid \in {"none", "client", "own"}
  /\ lerr \in Marks
  /\ MsgOK(m) /\ MsgOK(reply) /\ replies \in Nat /\ replyAt \in Nat
  /\ engaged \in BOOLEAN /\ nsent \in Nat /\ wire \in [Tuples -> Nat]

(* ---- C11: exactly one reply, in time, the walk is finite ---- *)
AtMostOneReply == replies <= 1
OneReplyWhenDone == pc = "done" => replies = 1
InTime == now <= QT /\ (replies = 1 => replyAt <= QT)
(* every configured endpoint is tried at most once per transport, whatever it does *)
WalkOnce == \A t \in Tuples : wire[t] <= 1
SendBound == nsent <= 2 * (NF + NB)
TcpOnlyAfterTruncation == \A s \in Srv : wire[<<s, "tcp">>] = 1 => wire[<<s, "udp">>] = 1
ReplyIsAnswerOrServfail == reply.rc \in {"none", "noerror", "nxdomain", "refused", "servfail"}
(* a response that does not match the outstanding question is never relayed *)
NoMismatchRelayed == m.ok /\ reply.ok
RelayIsFromContacted == reply.kind = "relay" => wire[<<reply.from, "udp">>] = 1

(* ---- C12: every transport attempt is debited before it is made ---- *)
DebitBeforeSend == nsent <= passes /\ (mode # "off" => passes = debits) /\ (mode = "off" => debits = 0)
WithinBudget == mode = "enforce" => (nsent <= cap /\ debits <= cap)
WorkFailIffLatched ==
  /\ latched => mode = "enforce"
  /\ pc = "done" => ((reply.kind = "workfail") <=> latched)
GuardRespected == \A t \in Tuples : guard[t] <= MaxAtt /\ (t \in pre => wire[t] = 0)

(* enforce: a tree rejected on ANY budget is answered the over-budget SERVFAIL, and not one more packet leaves for it
   (the reply that would replace it could only come from the fallback pool) *)
OverBudgetReplyIsWorkFail == (pc = "done" /\ latched) => (reply.kind = "workfail" /\ reply.rc = "servfail")
NoTrafficAfterPrimaryRejection == (prework # "none" /\ mode = "enforce") => nsent = 0
(* shadow / off: the same non-outbound work changes nothing (the run is a run of the model without it) *)
PreworkOnlyBitesInEnforce == (prework # "none" /\ latched) => mode = "enforce"

(* ---- C06 link: whatever ends the walk, what is handed up (and on to the client) carries the client's transaction ID ---- *)
ReplyEchoesClientId == (m.kind # "none" => m.id = "client") /\ (reply.kind # "none" => reply.id = "client")

(* ---- failover is entered only over a shared SERVFAIL of a live request ---- *)
FailoverOnlyOnServfail == engaged => (NB > 0 /\ entry.rc = "servfail" /\ ~entry.latched /\ ~entry.expired)
FallbackUntouchedUnlessEngaged == ~engaged => \A s \in Fb, p \in Protos : wire[<<s, p>>] = 0

(* ---- C13 link: a failure that is local to this request carries its mark; an unmarked one is genuine ---- *)
LocalFailureMarked ==
  (pc = "done" /\ reply.rc = "servfail" /\ reply.kind # "workfail" /\ reply.mark = "none")
    => /\ \A s \in Fwd : wire[<<s, "udp">>] = 1
       /\ engaged => \A s \in Fb : wire[<<s, "udp">>] = 1

(* the step order itself: a packet leaves only from a state whose attempt was already accepted *)
SendAfterDebit == [][nsent' > nsent => passes >= nsent']_vars

Termination == <>(pc = "done")
=============================================================================
