CONSTANTS
  NF = 3  NB = 2
  Faults <- NamedFaults
  Modes <- AllModes
  Caps <- Caps1236
  MaxPre = 2
  T = 2  QT = 5  FoCap = 20
  Ticks = FALSE  FwdStream = FALSE
  PreWorks <- NoWork
  DebitFirst = TRUE  CheckMatch = TRUE  StopAtDeadline = TRUE  LatchGuard = TRUE  StampFirst = TRUE
INIT Init
NEXT SimNext
CHECK_DEADLOCK FALSE
