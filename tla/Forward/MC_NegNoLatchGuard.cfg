CONSTANTS
  NF = 1  NB = 2
  Faults <- ClassFaults
  Modes <- Enforce
  Caps <- Caps3
  MaxPre = 0
  T = 2  QT = 5  FoCap = 20
  Ticks = FALSE  FwdStream = FALSE
  PreWorks <- SomeWorks
  DebitFirst = TRUE  CheckMatch = TRUE  StopAtDeadline = TRUE  LatchGuard = FALSE  StampFirst = TRUE
SPECIFICATION Spec
INVARIANTS TypeOK OverBudgetReplyIsWorkFail
PROPERTIES SendAfterDebit
VIEW View
CHECK_DEADLOCK FALSE
