#!/usr/bin/env python3
"""Regenerates the MC_*/Sim_* TLC configs of Forward.tla (run in this directory; Trace_*.cfg are kept by hand)."""

INVS = ("INVARIANTS TypeOK AtMostOneReply OneReplyWhenDone InTime WalkOnce SendBound TcpOnlyAfterTruncation\n"
        "  ReplyIsAnswerOrServfail NoMismatchRelayed RelayIsFromContacted DebitBeforeSend WithinBudget WorkFailIffLatched\n"
        "  GuardRespected FailoverOnlyOnServfail FallbackUntouchedUnlessEngaged LocalFailureMarked\n"
        "  OverBudgetReplyIsWorkFail NoTrafficAfterPrimaryRejection PreworkOnlyBitesInEnforce ReplyEchoesClientId\n")


def cfg(name, nf, nb, faults, modes, caps, maxpre, ticks, spec="Spec", props=(), debit=True, match=True, stop=True,
        view=True, t=2, qt=5, focap=20, sim=False, stream=False, works="NoWork", latchguard=True, stamp=True, invs=None):
    b = lambda x: "TRUE" if x else "FALSE"
    s = ("CONSTANTS\n  NF = %d  NB = %d\n  Faults <- %s\n  Modes <- %s\n  Caps <- %s\n  MaxPre = %d\n"
         "  T = %d  QT = %d  FoCap = %d\n  Ticks = %s  FwdStream = %s\n  PreWorks <- %s\n"
         "  DebitFirst = %s  CheckMatch = %s  StopAtDeadline = %s  LatchGuard = %s  StampFirst = %s\n") % (
        nf, nb, faults, modes, caps, maxpre, t, qt, focap, b(ticks), b(stream), works, b(debit), b(match), b(stop),
        b(latchguard), b(stamp))
    if sim:
        s += "INIT Init\nNEXT SimNext\n"
    else:
        s += "SPECIFICATION %s\n" % spec + (INVS if invs is None else "INVARIANTS %s\n" % invs)
        s += "PROPERTIES %s\n" % " ".join(["SendAfterDebit"] + list(props))
        if view:
            s += "VIEW View\n"
    s += "CHECK_DEADLOCK FALSE\n"
    with open(name, "w") as f:
        f.write(s)


# exhaustive (the clock may tick between any two steps)
cfg("MC_F2B1.cfg", 2, 1, "ClassFaults", "AllModes", "Caps13", 1, True)
cfg("MC_F2B1_q.cfg", 2, 1, "ClassFaults", "AllModes", "Caps12", 1, True)
cfg("MC_F2B1_stream.cfg", 2, 1, "StreamFaults", "AllModes", "Caps13", 1, True, stream=True)
cfg("MC_F3B2.cfg", 3, 2, "ClassFaults", "AllModes", "Caps135", 1, True)
cfg("MC_F2B2_focap.cfg", 2, 2, "ClassFaults", "AllModes", "Caps135", 1, True, focap=2)
# liveness under weak fairness (no VIEW: the behaviour graph itself is checked)
cfg("MC_F1B1_live.cfg", 1, 1, "ClassFaults", "AllModes", "Caps13", 1, True, spec="FairSpec", props=["Termination"], view=False)
cfg("MC_F1B1_live_q.cfg", 1, 1, "ClassFaults", "Enforce", "Caps13", 1, True, spec="FairSpec", props=["Termination"], view=False)
cfg("MC_F2B2_live.cfg", 2, 2, "ClassFaults", "Enforce", "Caps135", 1, True, spec="FairSpec", props=["Termination"], view=False)
# the small graph whose every edge is replayed (no ticks: every behaviour can be played)
cfg("MC_Graph_F2B1.cfg", 2, 1, "ClassFaults", "Enforce", "Caps3", 0, False)
# negative configs: a guard switched off must break the named invariant
cfg("MC_NegNoDebit.cfg", 2, 1, "ClassFaults", "Enforce", "Caps2", 0, False, debit=False)
cfg("MC_NegNoMatch.cfg", 2, 1, "ClassFaults", "Enforce", "Caps2", 0, False, match=False)
cfg("MC_NegNoDeadline.cfg", 2, 1, "ClassFaults", "Enforce", "Caps135", 0, False, stop=False)
# the primary resolution rejected on a non-outbound budget (one aggregate network kind, one aggregate DNSSEC kind, one
# per-object kind; the model treats all kinds alike), two fallbacks behind one forwarder, the clock ticking
cfg("MC_F1B2_work.cfg", 1, 2, "ClassFaults", "AllModes", "Caps13", 0, True, works="SomeWorks")
cfg("MC_F1B2_work_q.cfg", 1, 2, "ClassFaults", "AllModes", "Caps13", 0, False, works="SomeWorks")
# ... and the two guards of failover whose absence only shows there / when every fallback fails too
cfg("MC_NegNoLatchGuard.cfg", 1, 2, "ClassFaults", "Enforce", "Caps3", 0, False, works="SomeWorks", latchguard=False,
    invs="TypeOK OverBudgetReplyIsWorkFail")
cfg("MC_NegLateStamp.cfg", 1, 2, "ClassFaults", "Enforce", "Caps3", 0, False, stamp=False, invs="TypeOK ReplyEchoesClientId")
# -simulate
cfg("Sim_F2B2_work.cfg", 2, 2, "NamedFaults", "AllModes", "Caps1236", 0, False, sim=True, works="AllWorks")
cfg("Sim_F3B2.cfg", 3, 2, "NamedFaults", "AllModes", "Caps1236", 2, False, sim=True)
cfg("Sim_F2B0.cfg", 2, 0, "NamedFaults", "AllModes", "Caps13", 1, False, sim=True)
cfg("Sim_F1B1.cfg", 1, 1, "NamedFaults", "AllModes", "Caps13", 1, False, sim=True)
cfg("Sim_F2B1_dot.cfg", 2, 1, "StreamFaults", "AllModes", "Caps13", 1, False, sim=True, stream=True)
cfg("Sim_F2B1_doh.cfg", 2, 1, "StreamFaults", "AllModes", "Caps13", 1, False, sim=True, stream=True, t=5)
