CONSTANTS
  NF = 3  NB = 2
  Faults <- NamedFaults
  Modes <- AllModes
  Caps <- Caps1236
  MaxPre = 2
  T = 2  QT = 5  FoCap = 20
  Ticks = FALSE  FwdStream = FALSE
  DebitFirst = TRUE  CheckMatch = TRUE  StopAtDeadline = TRUE
SPECIFICATION TraceSpec
INVARIANTS AtMostOneReply InTime WalkOnce SendBound NoMismatchRelayed DebitBeforeSend WithinBudget WorkFailIffLatched
  GuardRespected FailoverOnlyOnServfail FallbackUntouchedUnlessEngaged
  ObsAtMostOneReply ObsDebitFirst ObsWithinBudget
CONSTRAINT HighWater
POSTCONDITION TraceAccepted
CHECK_DEADLOCK FALSE
