CONSTANTS
  NF = 3  NB = 2
  Faults <- NamedFaults
  Modes <- AllModes
  Caps <- Caps1236
  MaxPre = 2
  T = 2  QT = 5  FoCap = 20
  Ticks = FALSE  FwdStream = FALSE
  PreWorks <- AllWorks
  DebitFirst = TRUE  CheckMatch = TRUE  StopAtDeadline = TRUE  LatchGuard = TRUE  StampFirst = TRUE
SPECIFICATION TraceSpec
INVARIANTS AtMostOneReply InTime WalkOnce SendBound NoMismatchRelayed DebitBeforeSend WithinBudget WorkFailIffLatched
  GuardRespected FailoverOnlyOnServfail FallbackUntouchedUnlessEngaged OverBudgetReplyIsWorkFail ReplyEchoesClientId
  ObsAtMostOneReply ObsDebitFirst ObsWithinBudget ObsOverBudgetServfail
CONSTRAINT HighWater
POSTCONDITION TraceAccepted
CHECK_DEADLOCK FALSE
