--------------------------- MODULE Trace_Forward ---------------------------
(***************************************************************************)
(* code -> spec.  Histories recorded from the real forwarder / failover    *)
(* under a free-running concurrent load (harness/x11fw/stress_test.go:     *)
(* many distinct client queries in flight through one pipeline, every      *)
(* upstream playing a fault the harness drew for it) are validated against *)
(* Forward.tla.  Every recorded event carries one harness-side sequence    *)
(* number; the events of one client query, in that order, form its trace:  *)
(*                                                                         *)
(*   reset  mode cap pre [prework]  the query arrives (configuration, the  *)
(*                            guard tuples already exhausted, the budget   *)
(*                            the primary resolution is rejected on)       *)
(*   send   s p f ledger debits   a packet arrived at upstream s over p;   *)
(*                            f = the fault s plays; the request tree's    *)
(*                            ledger counter read at that moment           *)
(*   fwd    kind from rc mark     what the forwarder wrote into failover   *)
(*   reply  kind from rc mark latched   what failover wrote upward         *)
(*                                                                         *)
(* Everything else (context checks, guard, debit, the read, the loop       *)
(* heads, the clock) is not observable: those are the silent steps TLC     *)
(* composes between two lines, so a trace is accepted when some path       *)
(* consumes all of its lines (high-water mark of `l` in TLC register 1,    *)
(* -workers 1).  Traces are concatenated; a reset line re-initialises.     *)
(* The invariants of Forward.tla are checked on every state of the         *)
(* matching (TraceSpec: a trace the model cannot follow is drift).         *)
(* MonitorSpec reads the same file without the model: every line is        *)
(* consumed and only advances the OBSERVED counters (obs); the Obs         *)
(* invariants are the property predicates on what the code did - one of    *)
(* them failing is a violation, whatever the model says.                   *)
(***************************************************************************)
EXTENDS MC_Forward, IOUtils

TraceLog == ndJsonDeserialize(IOEnv.TRACE_FILE)

VARIABLES l, want, obs
tvars == <<vars, l, want, obs>>

Line == TraceLog[l]
IsEv(e) == l <= Len(TraceLog) /\ Line.ev = e /\ l' = l + 1
SeqSet(sq) == {sq[i] : i \in 1..Len(sq)}

ObsInit == [nsent |-> 0, ledger |-> FALSE, debits |-> 0, replies |-> 0, latched |-> FALSE, rc |-> "none"]

TraceInit == Init /\ pre = {} /\ prework = "none" /\ l = 1 /\ want = "none" /\ obs = ObsInit /\ TLCSet(1, 0)

TReset ==
  /\ IsEv("reset")
  /\ mode' = Line.mode /\ cap' = Line.cap
  /\ pre' = {<<t[1], t[2]>> : t \in SeqSet(Line.pre)}
  /\ prework' = IF "prework" \in DOMAIN Line THEN Line.prework ELSE "none"
  /\ pc' = "serve" /\ lvl' = "fwd" /\ idx' = 1 /\ cur' = 0 /\ proto' = "udp" /\ pend' = "none" /\ now' = 0
  /\ guard' = [t \in Tuples |-> IF t \in pre' THEN MaxAtt ELSE 0]
  /\ debits' = 0 /\ passes' = 0 /\ latched' = FALSE /\ fresp' = 0 /\ frc' = "none" /\ fid' = "none" /\ lerr' = "none"
  /\ m' = NoMsg /\ reply' = NoMsg /\ replies' = 0 /\ replyAt' = 0
  /\ engaged' = FALSE /\ entry' = [rc |-> "none", latched |-> FALSE, expired |-> FALSE]
  /\ nsent' = 0 /\ wire' = [t \in Tuples |-> 0] /\ sent' = <<>> /\ script' = [s \in Srv |-> "none"]
  /\ want' = "none" /\ obs' = ObsInit

TSend ==
  /\ IsEv("send")
  /\ \E lv \in {"fwd", "fo"} : Send(lv, Line.s, Line.p)
  /\ (Line.ledger /\ mode # "off") => debits = Line.debits
  /\ want' = Line.f
  /\ obs' = [obs EXCEPT !.nsent = @ + 1, !.ledger = Line.ledger, !.debits = Line.debits]

SameMsg(x) == x.kind = Line.kind /\ x.rc = Line.rc /\ x.mark = Line.mark
              /\ (Line.kind \in {"relay", "upfail"} => x.from = Line.from)
Norm(x) == IF x.kind \in {"localfail", "plainfail"} THEN [x EXCEPT !.kind = "fail"] ELSE x

TFwd ==
  /\ IsEv("fwd")
  /\ pc = "fo" /\ SameMsg(Norm(m))
  /\ UNCHANGED <<vars, want, obs>>

TReply ==
  /\ IsEv("reply")
  /\ Deliver /\ SameMsg(Norm(reply)) /\ latched = Line.latched
  /\ obs' = [obs EXCEPT !.replies = @ + 1, !.latched = Line.latched, !.rc = Line.rc]
  /\ UNCHANGED want

Silent ==
  /\ l <= Len(TraceLog)
  /\ \/ FwdServe \/ FwdNext \/ FwdFinish \/ FoWriteMsg \/ FoNext \/ FoFinish \/ Tick
     \/ \E lv \in {"fwd", "fo"} :
          \/ BeforeAttemptCtx(lv) \/ GuardBegin(lv) \/ Debit(lv)
          \/ (want \in Faults /\ Recv(lv, want))
  /\ UNCHANGED <<l, want, obs>>

TraceNext == TReset \/ TSend \/ TFwd \/ TReply \/ Silent
TraceSpec == TraceInit /\ [][TraceNext]_tvars

(* ---- the monitor: no model, every line consumed ---- *)
MReset ==
  /\ IsEv("reset")
  /\ mode' = Line.mode /\ cap' = Line.cap /\ obs' = ObsInit
  /\ UNCHANGED <<pre, prework, pc, lvl, idx, cur, proto, pend, now, guard, debits, passes, latched, fresp, frc, fid, lerr, m, reply,
                 replies, replyAt, engaged, entry, nsent, wire, sent, script, want>>
MSend ==
  /\ IsEv("send")
  /\ obs' = [obs EXCEPT !.nsent = @ + 1, !.ledger = Line.ledger, !.debits = Line.debits]
  /\ UNCHANGED <<vars, want>>
MReply ==
  /\ IsEv("reply")
  /\ obs' = [obs EXCEPT !.replies = @ + 1, !.latched = Line.latched, !.rc = Line.rc]
  /\ UNCHANGED <<vars, want>>
MFwd == IsEv("fwd") /\ UNCHANGED <<vars, want, obs>>
MonitorSpec == TraceInit /\ [][MReset \/ MSend \/ MReply \/ MFwd]_tvars

(* the predicates on what was observed *)
ObsAtMostOneReply == obs.replies <= 1
ObsDebitFirst == (obs.ledger /\ mode # "off") => obs.debits >= obs.nsent
ObsWithinBudget == mode = "enforce" => (obs.nsent <= cap /\ (obs.ledger => obs.debits <= cap))
(* what failover handed up for a tree whose ledger had latched a rejection (any budget) is the SERVFAIL *)
ObsOverBudgetServfail == (mode = "enforce" /\ obs.latched) => obs.rc = "servfail"

HighWater == TLCSet(1, IF l > TLCGet(1) THEN l ELSE TLCGet(1))
TraceAccepted == /\ PrintT(<<"highwater", TLCGet(1), Len(TraceLog)>>)
                 /\ TLCGet(1) > Len(TraceLog)
=============================================================================
