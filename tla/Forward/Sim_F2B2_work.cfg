CONSTANTS
  NF = 2  NB = 2
  Faults <- NamedFaults
  Modes <- AllModes
  Caps <- Caps1236
  MaxPre = 0
  T = 2  QT = 5  FoCap = 20
  Ticks = FALSE  FwdStream = FALSE
  PreWorks <- AllWorks
  DebitFirst = TRUE  CheckMatch = TRUE  StopAtDeadline = TRUE  LatchGuard = TRUE  StampFirst = TRUE
INIT Init
NEXT SimNext
CHECK_DEADLOCK FALSE
