----------------------------- MODULE MC_Forward -----------------------------
EXTENDS Forward, Json
(* fault alphabets: the classes (one representative per distinct model outcome) and every name the player knows *)
ClassFaults == {"answer", "nxdomain", "refused", "servfail", "drop", "garbage", "wrongQuestion", "tcAnswer", "tcStall",
                "tcReset", "tcServfail"}
NamedFaults == AllFaults
(* what a DoT / DoH forwarder (and the UDP fallbacks behind it) may play *)
StreamFaults == {"answer", "nxdomain", "refused", "servfail", "drop", "delay", "wrongId", "strayAnswer", "garbage", "wrongQuestion"}
AllModes == {"off", "shadow", "enforce"}
Enforce == {"enforce"}
Caps13 == {1, 2, 3}
Caps12 == {1, 2}
Caps2 == {2}
Caps3 == {3}
Caps135 == {1, 3, 5}
Caps1236 == {1, 2, 3, 6}
(* the non-outbound budget the primary resolution is rejected on *)
NoWork == {"none"}
SomeWorks == {"none", "internal", "signature", "dnskey"}
AllWorks == WorkKinds \cup {"none"}

(* -simulate: every behaviour ends in pc = "done"; its final state (the history variables hold the whole run)
   is printed as one JSON line for the replay driver *)
Final == [mode |-> mode, cap |-> cap, pre |-> pre, prework |-> prework, script |-> script, sent |-> sent, reply |-> reply, m |-> m,
          debits |-> debits, passes |-> passes, latched |-> latched, engaged |-> engaged, replyAt |-> replyAt,
          nsent |-> nsent, nf |-> NF, nb |-> NB]
SimNext == Next /\ (pc' = "done" => PrintT(ToJson(Final')))
=============================================================================
