CONSTANTS
  NF = 2  NB = 2
  Faults <- ClassFaults
  Modes <- AllModes
  Caps <- Caps135
  MaxPre = 1
  T = 2  QT = 5  FoCap = 2
  Ticks = TRUE  FwdStream = FALSE
  PreWorks <- NoWork
  DebitFirst = TRUE  CheckMatch = TRUE  StopAtDeadline = TRUE  LatchGuard = TRUE  StampFirst = TRUE
SPECIFICATION Spec
INVARIANTS TypeOK AtMostOneReply OneReplyWhenDone InTime WalkOnce SendBound TcpOnlyAfterTruncation
  ReplyIsAnswerOrServfail NoMismatchRelayed RelayIsFromContacted DebitBeforeSend WithinBudget WorkFailIffLatched
  GuardRespected FailoverOnlyOnServfail FallbackUntouchedUnlessEngaged LocalFailureMarked
  OverBudgetReplyIsWorkFail NoTrafficAfterPrimaryRejection PreworkOnlyBitesInEnforce ReplyEchoesClientId
PROPERTIES SendAfterDebit
VIEW View
CHECK_DEADLOCK FALSE
