CONSTANTS
  NF = 1  NB = 2
  Faults <- ClassFaults
  Modes <- Enforce
  Caps <- Caps3
  MaxPre = 0
  T = 2  QT = 5  FoCap = 20
  Ticks = FALSE  FwdStream = FALSE
  PreWorks <- NoWork
  DebitFirst = TRUE  CheckMatch = TRUE  StopAtDeadline = TRUE  LatchGuard = TRUE  StampFirst = FALSE
SPECIFICATION Spec
INVARIANTS TypeOK ReplyEchoesClientId
PROPERTIES SendAfterDebit
VIEW View
CHECK_DEADLOCK FALSE
