CONSTANTS
  NF = 2  NB = 2
  Faults <- ClassFaults
  Modes <- Enforce
  Caps <- Caps135
  MaxPre = 1
  T = 2  QT = 5  FoCap = 20
  Ticks = TRUE  FwdStream = FALSE
  PreWorks <- NoWork
  DebitFirst = TRUE  CheckMatch = TRUE  StopAtDeadline = TRUE  LatchGuard = TRUE  StampFirst = TRUE
SPECIFICATION FairSpec
INVARIANTS TypeOK AtMostOneReply OneReplyWhenDone InTime WalkOnce SendBound TcpOnlyAfterTruncation
  ReplyIsAnswerOrServfail NoMismatchRelayed RelayIsFromContacted DebitBeforeSend WithinBudget WorkFailIffLatched
  GuardRespected FailoverOnlyOnServfail FallbackUntouchedUnlessEngaged LocalFailureMarked
  OverBudgetReplyIsWorkFail NoTrafficAfterPrimaryRejection PreworkOnlyBitesInEnforce ReplyEchoesClientId
PROPERTIES SendAfterDebit Termination
CHECK_DEADLOCK FALSE
