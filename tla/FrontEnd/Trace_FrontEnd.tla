--------------------------- MODULE Trace_FrontEnd ---------------------------
(***************************************************************************)
(* Validation of free-running concurrent histories recorded from the real  *)
(* server (harness/x06fe TestStress) against FrontEnd.tla.                  *)
(*                                                                         *)
(* Clients on shared DoQ / HTTP2 / HTTP3 / HTTP1.1 connections run their   *)
(* exchanges concurrently.  Lines, stamped in one harness-side order:      *)
(*   send  e c r    written BEFORE the client sends request r on c         *)
(*   park  e        written by the scripted tail when e's handler reached  *)
(*                  it (so ServeMsg(e) happened before, TailRun(e) after)  *)
(*   ret   e        written when the tail is done with e (a panicking tail *)
(*                  writes it while unwinding, ahead of the recovery's     *)
(*                  SERVFAIL)                                              *)
(*   recv  e got    written AFTER the client has read exchange e to its    *)
(*                  end; got = what arrived, in the model's vocabulary     *)
(*   Reset          a new round: fresh connections                         *)
(* The steps of the server between the lines are not observable: they are  *)
(* the silent steps TLC interleaves, so acceptance means SOME schedule of  *)
(* the model's atomic steps explains every observation.  What a client     *)
(* observed is kept in obs and judged by the Obs* invariants whether or    *)
(* not the model explains it: an invariant failing here is the property    *)
(* failing on a real execution; a history merely not explained is drift.   *)
(* Run with -workers 1: the high-water mark of l is kept in TLC register 1.*)
(***************************************************************************)
EXTENDS MC_FrontEnd, Json, IOUtils

TraceLog == ndJsonDeserialize(IOEnv.TRACE_FILE)

VARIABLES l, obs, ok
tvars == <<vars, l, obs, ok>>

TraceInit == Init /\ l = 1 /\ obs = [e \in Exch |-> <<>>] /\ ok = TRUE /\ TLCSet(1, 0)
Line == TraceLog[l]
IsEv(x) == l <= Len(TraceLog) /\ Line.ev = x /\ l' = l + 1

Sig(it) ==
  IF it.t \in {"dns", "json"} THEN it.t \o ":" \o it.rc
  ELSE IF it.t \in {"status", "connerr"} THEN it.t \o ":" \o ToString(it.code)
  ELSE it.t
SigSeq(s) == [i \in 1..Len(s) |-> Sig(s[i])]

\* the client has everything it will ever get
ClientDone(e) ==
  /\ out[e] # <<>>
  /\ LET last == out[e][Len(out[e])] IN
     IF Doq(e) THEN last.t \in {"fin", "connerr"} ELSE TRUE

\* a connection error may swallow what was written just before it
Matches(e, got) ==
  /\ ClientDone(e)
  /\ \/ SigSeq(out[e]) = SigSeq(got)
     \/ /\ out[e][Len(out[e])].t = "connerr"
        /\ Len(got) = 1 /\ got[1].t = "connerr"

TSend ==
  /\ IsEv("send")
  /\ StartReq(Line.e, Line.c, Line.r)
  /\ UNCHANGED <<obs, ok>>

TPark ==
  /\ IsEv("park")
  /\ pc[Line.e] = "parked"
  /\ UNCHANGED <<vars, obs, ok>>

TRet ==
  /\ IsEv("ret")
  /\ IF req[Line.e].kind = "pt" THEN pc[Line.e] = "parked" ELSE pc[Line.e] = "ret"
  /\ UNCHANGED <<vars, obs, ok>>

TRecv ==
  /\ IsEv("recv")
  /\ pc[Line.e] # "free"
  /\ obs' = [obs EXCEPT ![Line.e] = Line.got]
  /\ ok' = (ok /\ Matches(Line.e, Line.got))
  /\ UNCHANGED vars

TRedial ==
  /\ IsEv("redial")
  /\ Redial(Line.c)
  /\ UNCHANGED <<obs, ok>>

TReset ==
  /\ IsEv("Reset")
  /\ \A e \in Exch : pc[e] \in {"free", "done"}
  /\ pc' = [e \in Exch |-> "free"]
  /\ req' = [e \in Exch |-> NoReq]
  /\ cn' = [e \in Exch |-> CHOOSE c \in Conns : TRUE]
  /\ eg' = [e \in Exch |-> 0]
  /\ cid' = [e \in Exch |-> 0]
  /\ written' = [e \in Exch |-> FALSE]
  /\ mw' = [e \in Exch |-> None]
  /\ out' = [e \in Exch |-> <<>>]
  /\ conn' = [c \in Conns |-> [open |-> TRUE, gen |-> 0, code |-> 0]]
  /\ lastStream' = [c \in Conns |-> 0]
  /\ lastMw' = None
  /\ obs' = [e \in Exch |-> <<>>]
  /\ UNCHANGED ok

Silent ==
  /\ l <= Len(TraceLog)
  /\ \E e \in Exch : Internal(e) \/ TailRun(e)
  /\ UNCHANGED <<l, obs, ok>>

TraceNext == TReset \/ TSend \/ TPark \/ TRet \/ TRecv \/ TRedial \/ Silent
TraceSpec == TraceInit /\ [][TraceNext]_tvars

\* only schedules that explain every observation so far are explored further (the invariants are
\* still evaluated on the state that records an unexplained observation)
HighWater == ok /\ TLCSet(1, IF l > TLCGet(1) THEN l ELSE TLCGet(1))
TraceAccepted == TLCGet(1) > Len(TraceLog)

\* ---- the property predicates on what the clients observed ----
ObsReplies(e) == {i \in 1..Len(obs[e]) : obs[e][i].t \in {"dns", "json"}}
ObsAtMostOneReply == \A e \in Exch : Cardinality(ObsReplies(e)) <= 1
ObsReplyIsOwn == \A e \in Exch : \A i \in ObsReplies(e) : obs[e][i].from = e
ObsIdRule ==
  \A e \in Exch : \A i \in ObsReplies(e) :
    LET it == obs[e][i] IN
    IF Doq(e) THEN it.id = 0 ELSE it.t = "dns" => it.id = ReqId(req[e])
ObsGarbageNeverAnswered == \A e \in Exch : (req[e] # NoReq /\ Rejected(e)) => ObsReplies(e) = {}
ObsNegotiated ==
  \A e \in Exch : \A i \in ObsReplies(e) :
    LET it == obs[e][i]
        r == req[e]
    IN /\ ~it.tc /\ ~it.ka
       /\ ~(it.rc \in {"formerr", "notimp"} /\ ~it.q) =>
            /\ it.opt => HasOpt(r)
            /\ it.sigs => WantsDO(r)
            /\ it.ad => (~r.cd /\ (WantsDO(r) \/ ReqAD(r)))
            /\ ~it.foreign
=============================================================================
