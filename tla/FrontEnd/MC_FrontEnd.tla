----------------------------- MODULE MC_FrontEnd -----------------------------
EXTENDS FrontEnd

R(form, mal, kind, idnz, edns, ad, cd) ==
  [form |-> form, mal |-> mal, kind |-> kind, idnz |-> idnz, edns |-> edns, ad |-> ad, cd |-> cd]

\* ---- connection layouts ----
OneDoq == (1 :> "doq")
TwoDoq == (1 :> "doq" @@ 2 :> "doq")
OneH2 == (1 :> "h2")
H2AndH3 == (1 :> "h2" @@ 2 :> "h3")
H1 == (1 :> "h1")
DoqAndH2 == (1 :> "doq" @@ 2 :> "h2")
AllFour == (1 :> "doq" @@ 2 :> "h2" @@ 3 :> "h3" @@ 4 :> "h1")
H2H3H1 == (1 :> "h2" @@ 2 :> "h3" @@ 3 :> "h1")

\* ---- request sets of the exhaustive configs ----
\* DoQ: an answer shaped by every negotiation bit, a silent one, a double write, a cache hit, and the
\* three ways a stream is refused (size, prefix, decode)
DoqCore == <<
  R("frame", "none", "sg", TRUE, "do", FALSE, FALSE),
  R("frame", "none", "st", FALSE, "none", FALSE, FALSE),
  R("frame", "none", "dw", TRUE, "ka", FALSE, FALSE),
  R("frame", "none", "hit", FALSE, "plain", TRUE, FALSE),
  R("frame", "two-msgs", "a", FALSE, "none", FALSE, FALSE),
  R("frame", "garbage", "a", FALSE, "none", FALSE, FALSE),
  R("frame", "short", "a", FALSE, "none", FALSE, FALSE) >>

DoqDns == <<
  R("frame", "none", "bg", TRUE, "plain", FALSE, FALSE),
  R("frame", "none", "pt", FALSE, "all", FALSE, TRUE),
  R("frame", "none", "op", TRUE, "plain", FALSE, FALSE),
  R("frame", "qr", "a", TRUE, "none", FALSE, FALSE),
  R("frame", "opcode", "a", TRUE, "none", FALSE, FALSE),
  R("frame", "qd0", "a", TRUE, "none", FALSE, FALSE),
  R("frame", "qd2", "a", FALSE, "plain", FALSE, FALSE),
  R("frame", "badvers", "a", TRUE, "plain", FALSE, FALSE),
  R("frame", "oversize", "a", FALSE, "none", FALSE, FALSE),
  R("frame", "trailing", "hit", FALSE, "none", FALSE, FALSE),
  R("frame", "len-long", "a", FALSE, "none", FALSE, FALSE) >>

DohCore == <<
  R("get", "none", "sg", TRUE, "do", FALSE, FALSE),
  R("post", "none", "st", TRUE, "none", FALSE, FALSE),
  R("post", "none", "dw", TRUE, "ka", TRUE, FALSE),
  R("get", "none", "hit", FALSE, "plain", FALSE, FALSE),
  R("post", "none", "ph", TRUE, "none", FALSE, FALSE),
  R("json", "none", "sg", FALSE, "do", FALSE, TRUE),
  R("post", "garbage", "a", FALSE, "none", FALSE, FALSE),
  R("post", "ctype", "a", FALSE, "none", FALSE, FALSE) >>

DohDns == <<
  R("post", "none", "bg", TRUE, "plain", FALSE, FALSE),
  R("json", "none", "st", FALSE, "none", FALSE, FALSE),
  R("json", "none", "pt", FALSE, "none", FALSE, FALSE),
  R("post", "none", "op", TRUE, "all", FALSE, FALSE),
  R("post", "qr", "a", TRUE, "none", FALSE, FALSE),
  R("get", "opcode", "a", TRUE, "none", FALSE, FALSE),
  R("post", "qd0", "st", TRUE, "none", FALSE, FALSE),
  R("post", "badvers", "a", TRUE, "plain", FALSE, FALSE),
  R("get", "b64-pad", "a", FALSE, "none", FALSE, FALSE),
  R("get", "method", "a", FALSE, "none", FALSE, FALSE),
  R("post", "two-msgs", "a", TRUE, "none", FALSE, FALSE),
  R("json", "json-badtype", "a", FALSE, "none", FALSE, FALSE),
  R("json", "json-post", "a", FALSE, "none", FALSE, FALSE) >>

Mixed == <<
  R("frame", "none", "sg", TRUE, "do", FALSE, FALSE),
  R("frame", "none", "st", FALSE, "none", FALSE, FALSE),
  R("frame", "trailing", "a", FALSE, "none", FALSE, FALSE),
  R("post", "none", "sg", TRUE, "do", TRUE, FALSE),
  R("post", "none", "st", TRUE, "none", FALSE, FALSE),
  R("json", "none", "sg", FALSE, "none", FALSE, FALSE),
  R("get", "short", "a", FALSE, "none", FALSE, FALSE) >>

\* the smallest sets the mutant configs need
MutDoq == <<
  R("frame", "none", "a", TRUE, "ka", FALSE, FALSE),
  R("frame", "none", "dw", TRUE, "none", FALSE, FALSE),
  R("frame", "none", "bg", FALSE, "plain", FALSE, FALSE),
  R("frame", "none", "op", FALSE, "plain", FALSE, FALSE),
  R("frame", "two-msgs", "a", FALSE, "none", FALSE, FALSE),
  R("frame", "qr", "a", FALSE, "none", FALSE, FALSE) >>
MutDoh == <<
  R("post", "none", "a", TRUE, "ka", FALSE, FALSE),
  R("post", "none", "st", TRUE, "none", FALSE, FALSE),
  R("post", "none", "dw", TRUE, "none", FALSE, FALSE),
  R("post", "none", "bg", FALSE, "plain", FALSE, FALSE),
  R("post", "qr", "a", FALSE, "none", FALSE, FALSE) >>
MutBoth == MutDoq \o MutDoh

\* ---- request menus of the simulation configs -----------------------------------------------------
\* TLC's simulator picks uniformly among ALL successor states, so a menu is kept small: with a few
\* requests on offer the choice between "start another exchange" and "let a parked one finish" stays
\* balanced, and every menu carries something that closes a DoQ connection or is refused.  Together
\* the menus hold every malformed kind and every kind of answer; the byte-level variants of one
\* abstract request (EDNS options, qtype) are drawn by the driver.
SimDoqA == <<
  R("frame", "none", "a", TRUE, "do", FALSE, FALSE),
  R("frame", "none", "st", FALSE, "none", FALSE, FALSE),
  R("frame", "none", "dw", TRUE, "ka", FALSE, FALSE),
  R("frame", "none", "hit", FALSE, "plain", TRUE, FALSE),
  R("frame", "two-msgs", "a", FALSE, "none", FALSE, FALSE),
  R("frame", "short", "a", FALSE, "none", FALSE, FALSE),
  R("frame", "none", "sg", TRUE, "do", FALSE, TRUE),
  R("frame", "none", "bg", FALSE, "plain", FALSE, FALSE) >>
SimDoqB == <<
  R("frame", "none", "pt", TRUE, "all", FALSE, FALSE),
  R("frame", "none", "op", FALSE, "plain", FALSE, FALSE),
  R("frame", "qr", "a", TRUE, "none", FALSE, FALSE),
  R("frame", "opcode", "a", TRUE, "plain", FALSE, FALSE),
  R("frame", "garbage", "a", FALSE, "none", FALSE, FALSE),
  R("frame", "len-long", "a", FALSE, "none", FALSE, FALSE),
  R("frame", "none", "hit", TRUE, "none", FALSE, FALSE),
  R("frame", "none", "sg", FALSE, "do", FALSE, FALSE) >>
SimDoqC == <<
  R("frame", "qd0", "a", TRUE, "none", FALSE, FALSE),
  R("frame", "qd2", "a", FALSE, "plain", FALSE, FALSE),
  R("frame", "badvers", "a", TRUE, "plain", FALSE, FALSE),
  R("frame", "trailing", "hit", FALSE, "none", FALSE, FALSE),
  R("frame", "oversize", "a", FALSE, "none", FALSE, FALSE),
  R("frame", "none", "sg", FALSE, "none", TRUE, FALSE),
  R("frame", "none", "bg", TRUE, "none", FALSE, FALSE),
  R("frame", "none", "st", TRUE, "do", FALSE, FALSE) >>
SimDoqD == <<
  R("frame", "prefix-only", "a", FALSE, "none", FALSE, FALSE),
  R("frame", "empty", "a", FALSE, "none", FALSE, FALSE),
  R("frame", "len-short", "a", FALSE, "none", FALSE, FALSE),
  R("frame", "none", "a", FALSE, "ka", TRUE, TRUE),
  R("frame", "none", "dw", FALSE, "none", FALSE, FALSE),
  R("frame", "none", "pt", FALSE, "none", FALSE, FALSE),
  R("frame", "none", "hit", TRUE, "do", FALSE, FALSE),
  R("frame", "none", "op", TRUE, "all", FALSE, FALSE) >>

SimDohA == <<
  R("get", "none", "a", TRUE, "do", FALSE, FALSE),
  R("post", "none", "st", TRUE, "none", FALSE, FALSE),
  R("post", "none", "dw", TRUE, "ka", TRUE, FALSE),
  R("get", "none", "hit", FALSE, "plain", FALSE, FALSE),
  R("post", "none", "ph", TRUE, "none", FALSE, FALSE),
  R("json", "none", "sg", FALSE, "do", FALSE, TRUE),
  R("post", "garbage", "a", FALSE, "none", FALSE, FALSE),
  R("post", "ctype", "a", FALSE, "none", FALSE, FALSE) >>
SimDohB == <<
  R("post", "none", "bg", TRUE, "plain", FALSE, FALSE),
  R("json", "none", "st", FALSE, "none", FALSE, FALSE),
  R("json", "none", "pt", FALSE, "none", FALSE, FALSE),
  R("json", "none", "sg", FALSE, "none", FALSE, FALSE),
  R("post", "none", "op", TRUE, "all", FALSE, FALSE),
  R("post", "qr", "a", TRUE, "none", FALSE, FALSE),
  R("get", "opcode", "a", TRUE, "none", FALSE, FALSE),
  R("post", "qd0", "st", TRUE, "none", FALSE, FALSE),
  R("post", "badvers", "a", TRUE, "plain", FALSE, FALSE) >>
SimDohC == <<
  R("get", "b64-pad", "a", FALSE, "none", FALSE, FALSE),
  R("get", "method", "a", FALSE, "none", FALSE, FALSE),
  R("post", "two-msgs", "a", TRUE, "none", FALSE, FALSE),
  R("json", "json-badtype", "a", FALSE, "none", FALSE, FALSE),
  R("json", "json-post", "a", FALSE, "none", FALSE, FALSE),
  R("get", "b64-std", "a", FALSE, "none", FALSE, FALSE),
  R("get", "head", "a", FALSE, "none", FALSE, FALSE),
  R("post", "oversize", "hit", TRUE, "none", FALSE, FALSE),
  R("post", "none", "sg", TRUE, "do", FALSE, FALSE) >>
SimDohD == <<
  R("get", "short", "a", FALSE, "none", FALSE, FALSE),
  R("get", "garbage", "a", FALSE, "none", FALSE, FALSE),
  R("post", "noctype", "a", FALSE, "none", FALSE, FALSE),
  R("post", "ctype-param", "a", FALSE, "none", FALSE, FALSE),
  R("post", "empty", "a", FALSE, "none", FALSE, FALSE),
  R("post", "trailing", "hit", TRUE, "plain", FALSE, FALSE),
  R("json", "json-noname", "a", FALSE, "none", FALSE, FALSE),
  R("json", "none", "a", FALSE, "none", TRUE, FALSE),
  R("get", "none", "bg", TRUE, "do", FALSE, FALSE) >>
SimDohE == <<
  R("post", "short", "a", FALSE, "none", FALSE, FALSE),
  R("post", "oversize-garbage", "a", FALSE, "none", FALSE, FALSE),
  R("post", "method", "a", FALSE, "none", FALSE, FALSE),
  R("json", "json-type0", "a", FALSE, "none", FALSE, FALSE),
  R("json", "json-type65536", "a", FALSE, "none", FALSE, FALSE),
  R("get", "b64-junk", "a", FALSE, "none", FALSE, FALSE),
  R("post", "none", "sg", TRUE, "none", TRUE, FALSE),
  R("json", "none", "bg", FALSE, "none", FALSE, FALSE),
  R("post", "qd2", "a", TRUE, "none", FALSE, FALSE) >>

SimMixA == <<
  R("frame", "none", "a", TRUE, "do", FALSE, FALSE),
  R("frame", "none", "hit", FALSE, "plain", FALSE, FALSE),
  R("frame", "two-msgs", "a", FALSE, "none", FALSE, FALSE),
  R("frame", "none", "st", FALSE, "none", FALSE, FALSE),
  R("post", "none", "a", TRUE, "do", TRUE, FALSE),
  R("get", "none", "hit", TRUE, "plain", FALSE, FALSE),
  R("post", "none", "st", TRUE, "none", FALSE, FALSE),
  R("json", "none", "a", FALSE, "none", FALSE, FALSE),
  R("post", "ctype", "a", FALSE, "none", FALSE, FALSE) >>
SimMixB == <<
  R("frame", "none", "sg", FALSE, "do", FALSE, FALSE),
  R("frame", "none", "dw", TRUE, "none", FALSE, FALSE),
  R("frame", "garbage", "a", FALSE, "none", FALSE, FALSE),
  R("frame", "none", "pt", TRUE, "plain", FALSE, FALSE),
  R("post", "none", "sg", FALSE, "do", FALSE, FALSE),
  R("get", "none", "dw", TRUE, "none", FALSE, FALSE),
  R("post", "none", "pt", TRUE, "plain", FALSE, FALSE),
  R("post", "none", "ph", FALSE, "none", FALSE, FALSE),
  R("get", "b64-pad", "a", FALSE, "none", FALSE, FALSE) >>

\* every request of every menu: the alphabet of the recorded histories
SimAll == SimDoqA \o SimDoqB \o SimDoqC \o SimDoqD \o SimDohA \o SimDohB \o SimDohC \o SimDohD \o SimDohE \o SimMixA \o SimMixB

\* the driver reads the requests of a behaviour from the state, not from the label
=============================================================================
