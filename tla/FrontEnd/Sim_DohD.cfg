CONSTANTS
  Exch = {1, 2, 3, 4, 5, 6}
  Conns = {1, 2, 3}
  TrOf <- H2H3H1
  ReqSeq <- SimDohD
  Atomic = "gate"
  MaxGen = 1
  WrongStream = FALSE
  KeepId = FALSE
  SecondWrite = FALSE
  UdpClamp = FALSE
  KeepaliveAny = FALSE
  ReflectUpstream = FALSE
  NoPrefixCheck = FALSE
  StaleWriter = FALSE
  QrGate = FALSE
INIT Init
NEXT Next
CHECK_DEADLOCK FALSE
