CONSTANTS
  Exch = {1, 2, 3, 4, 5, 6, 7, 8}
  Conns = {1, 2, 3, 4}
  TrOf <- AllFour
  ReqSeq <- SimAll
  Atomic = "free"
  MaxGen = 1000
  WrongStream = FALSE
  KeepId = FALSE
  SecondWrite = FALSE
  UdpClamp = FALSE
  KeepaliveAny = FALSE
  ReflectUpstream = FALSE
  NoPrefixCheck = FALSE
  StaleWriter = FALSE
  QrGate = FALSE
SPECIFICATION TraceSpec
INVARIANTS ObsAtMostOneReply ObsReplyIsOwn ObsIdRule ObsGarbageNeverAnswered ObsNegotiated
CONSTRAINT HighWater
POSTCONDITION TraceAccepted
CHECK_DEADLOCK FALSE
