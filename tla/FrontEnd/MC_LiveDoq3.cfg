CONSTANTS
  Exch = {1, 2, 3}
  Conns = {1}
  TrOf <- OneDoq
  ReqSeq <- MutDoq
  Atomic = "free"
  MaxGen = 1
  WrongStream = FALSE
  KeepId = FALSE
  SecondWrite = FALSE
  UdpClamp = FALSE
  KeepaliveAny = FALSE
  ReflectUpstream = FALSE
  NoPrefixCheck = FALSE
  StaleWriter = FALSE
  QrGate = FALSE
SPECIFICATION FairSpec
INVARIANTS TypeOK
PROPERTIES EveryExchangeEnds
CHECK_DEADLOCK FALSE
