#!/usr/bin/env python3
"""Regenerates the TLC configs of FrontEnd (run in this directory)."""
INV = ("TypeOK AtMostOneReply OneHttpResponse ReplyIsOwn ExactlyOneWhenServed SilentStaysSilent PanicAheadIsReset\n"
       "  GarbageNeverAnswered DocumentedRejection IdRule EchoRule NegotiatedOnly NeverTruncated LargeArrivesWhole\n"
       "  NoKeepalive FirstReplyStands")
ACT = "OutOnlyGrows NothingAfterEnd"
MUTANTS = ["WrongStream", "KeepId", "SecondWrite", "UdpClamp", "KeepaliveAny", "ReflectUpstream", "NoPrefixCheck",
           "StaleWriter", "QrGate"]


def rng(n):
    return "{" + ", ".join(str(i) for i in range(1, n + 1)) + "}"


def consts(nexch, nconns, tr, reqs, atomic="free", maxgen=1, **mut):
    s = ("CONSTANTS\n  Exch = %s\n  Conns = %s\n  TrOf <- %s\n  ReqSeq <- %s\n  Atomic = \"%s\"\n  MaxGen = %d\n" % (
        rng(nexch), rng(nconns), tr, reqs, atomic, maxgen))
    for m in MUTANTS:
        s += "  %s = %s\n" % (m, "TRUE" if mut.get(m) else "FALSE")
    return s


def mc(name, c, inv=INV, act=ACT):
    open("MC_%s.cfg" % name, "w").write(c + "SPECIFICATION Spec\nINVARIANTS %s\nPROPERTIES %s\nCHECK_DEADLOCK FALSE\n" % (inv, act))


def live(name, c):
    open("MC_%s.cfg" % name, "w").write(c + "SPECIFICATION FairSpec\nINVARIANTS TypeOK\nPROPERTIES EveryExchangeEnds\nCHECK_DEADLOCK FALSE\n")


def sim(name, c):
    open("Sim_%s.cfg" % name, "w").write(c + "INIT Init\nNEXT Next\nCHECK_DEADLOCK FALSE\n")


def trace(name, c):
    open("Trace_%s.cfg" % name, "w").write(
        c + "SPECIFICATION TraceSpec\nINVARIANTS ObsAtMostOneReply ObsReplyIsOwn ObsIdRule ObsGarbageNeverAnswered ObsNegotiated\n"
            "CONSTRAINT HighWater\nPOSTCONDITION TraceAccepted\nCHECK_DEADLOCK FALSE\n")


# ---- exhaustive, every interleaving --------------------------------------------------------------
# quick tier
mc("Doq2Q", consts(2, 1, "OneDoq", "DoqCore"))
mc("Doh2Q", consts(2, 1, "OneH2", "DohCore"))
# thorough tier
mc("Doq3", consts(3, 1, "OneDoq", "DoqCore"))
mc("DoqDns2", consts(2, 1, "OneDoq", "DoqDns", maxgen=2))
mc("DoqTwoConn3", consts(3, 2, "TwoDoq", "MutDoq"))
mc("Doh3", consts(3, 2, "H2AndH3", "DohCore"))
mc("DohDns2", consts(2, 1, "OneH2", "DohDns"))
mc("H1x3", consts(3, 1, "H1", "DohCore"))
mc("Mixed3", consts(3, 2, "DoqAndH2", "Mixed"))
live("Live", consts(2, 2, "DoqAndH2", "Mixed"))
live("LiveDoq3", consts(3, 1, "OneDoq", "MutDoq"))
# ---- the schedules a gated driver can force: a small graph whose every edge is replayed ---------------
mc("Gate", consts(3, 2, "DoqAndH2", "Mixed", atomic="gate"))
mc("GateDoq", consts(3, 1, "OneDoq", "DoqCore", atomic="gate"))
mc("GateQ", consts(2, 2, "DoqAndH2", "Mixed", atomic="gate"))
# ---- mutants: each must violate its invariant ------------------------------------------------------------
mc("NegWrongStream", consts(2, 1, "OneDoq", "MutDoq", WrongStream=True))
mc("NegKeepId", consts(1, 1, "OneDoq", "MutDoq", KeepId=True))
mc("NegSecondWrite", consts(1, 1, "OneDoq", "MutDoq", SecondWrite=True))
mc("NegSecondWriteDoh", consts(1, 1, "OneH2", "MutDoh", SecondWrite=True))
mc("NegUdpClamp", consts(1, 1, "OneH2", "MutDoh", UdpClamp=True))
mc("NegKeepalive", consts(1, 1, "OneDoq", "MutDoq", KeepaliveAny=True))
mc("NegReflect", consts(1, 1, "OneDoq", "MutDoq", ReflectUpstream=True))
mc("NegPrefix", consts(1, 1, "OneDoq", "MutDoq", NoPrefixCheck=True))
mc("NegStale", consts(2, 1, "OneH2", "MutDoh", StaleWriter=True))
# ---- the clause about responses: false of the ServeMsg entry as it is, true with a gate ------------------
mc("QrFinding", consts(1, 2, "DoqAndH2", "MutBoth"), inv=INV + " ResponsesNeverAnswered")
mc("QrGated", consts(2, 2, "DoqAndH2", "MutBoth", QrGate=True), inv=INV + " ResponsesNeverAnswered")
# ---- simulation: driver behaviours ------------------------------------------------------------------------
for m in "ABCD":
    sim("Doq" + m, consts(6, 2, "TwoDoq", "SimDoq" + m, atomic="gate", maxgen=3))
for m in "ABCDE":
    sim("Doh" + m, consts(6, 3, "H2H3H1", "SimDoh" + m, atomic="gate"))
for m in "AB":
    sim("Mix" + m, consts(7, 4, "AllFour", "SimMix" + m, atomic="gate", maxgen=2))
# ---- recorded histories ---------------------------------------------------------------------------------------
trace("Free", consts(8, 4, "AllFour", "SimAll", maxgen=1000))
