CONSTANTS
  Exch = {1, 2, 3, 4, 5, 6, 7}
  Conns = {1, 2, 3, 4}
  TrOf <- AllFour
  ReqSeq <- SimMixB
  Atomic = "gate"
  MaxGen = 2
  WrongStream = FALSE
  KeepId = FALSE
  SecondWrite = FALSE
  UdpClamp = FALSE
  KeepaliveAny = FALSE
  ReflectUpstream = FALSE
  NoPrefixCheck = FALSE
  StaleWriter = FALSE
  QrGate = FALSE
INIT Init
NEXT Next
CHECK_DEADLOCK FALSE
