------------------------------ MODULE FrontEnd ------------------------------
(***************************************************************************)
(* The DoH and DoQ front ends of sdns: one reply per HTTP exchange / QUIC  *)
(* stream, framed and shaped as the client negotiated.                     *)
(*                                                                         *)
(* Code modelled (one action per step of the real code):                   *)
(*   server/doq/doq.go          handleConnection (AcceptStream; go         *)
(*                              handleStream), handleStream (ReadAll to    *)
(*                              FIN, three size/prefix checks, Unpack,     *)
(*                              req.Id = dns.Id(), ServeMsg, deferred      *)
(*                              releaseMsg + stream.Close)                 *)
(*   server/doq/response_writer.go  WriteMsg (m.Id = 0, Pack, 2-octet      *)
(*                              prefix, Stream.Write)                      *)
(*   server/server.go           ServeHTTP (routing JSON / wire, the        *)
(*                              mock.Writer("doh") per exchange, Written?),*)
(*                              serveMsgBy (QDCOUNT != 1 -> FORMERR written *)
(*                              on the transport itself)                   *)
(*   server/doh/doh.go          HandleWireFormat, HandleJSON (the status   *)
(*                              ladder 405 / 415 / 400 / 500 / 200)        *)
(*   middleware/response_writer.go  the written-once base writer           *)
(*   middleware/edns/edns.go    NOTIMP / BADVERS ahead of the edns writer, *)
(*                              the shaping of every other reply           *)
(*   middleware/recovery        panic below it -> SERVFAIL                 *)
(*                                                                         *)
(* An exchange is one HTTP request or one QUIC bidirectional stream.  Its  *)
(* client-visible history is out[e]: what arrived on that exchange, in     *)
(* order.  Several exchanges share a connection (HTTP/2, HTTP/3, QUIC) and *)
(* complete in any order; DoQ rejects a malformed stream by closing the    *)
(* WHOLE connection with DOQ_PROTOCOL_ERROR, which is the one coupling     *)
(* between concurrent streams the code has.                                *)
(*                                                                         *)
(* Deliberate deviations (named):                                          *)
(*  - the chain between the entry and the cache lookup is one action       *)
(*    (ServeMsg): it is straight-line code over request-local state;       *)
(*  - a panic AHEAD of the recovery middleware is modelled for DoH only    *)
(*    (net/http and http3 guard the handler goroutine).  The DoQ stream    *)
(*    goroutine has no guard of its own: such a panic would end the        *)
(*    process, so no DoQ request of kind "ph" is ever generated;           *)
(*  - message IDs are 0, ClientId (a client's non-zero ID) or RandId (the  *)
(*    dns.Id() DoQ overwrites the request ID with);                        *)
(*  - client-side cancellation (RST / context cancel) is not modelled.     *)
(***************************************************************************)
EXTENDS Naturals, Sequences, FiniteSets, TLC

CONSTANTS
  Exch,            \* exchange ids 1..N, each used at most once, in order
  Conns,           \* connection ids
  TrOf,            \* [Conns -> {"h1", "h2", "h3", "doq"}]
  ReqSeq,          \* sequence of the request records a client may send
  Atomic,          \* "free": every interleaving; "gate": internal steps run on to the park point
                   \*          (the schedules a driver with a gated tail can force)
  MaxGen,          \* redials per connection
  \* ---- the guards of the code; flipping one is a mutant ----
  WrongStream,     \* FALSE.  TRUE: one DoQ writer per connection, re-pointed at the newest stream
  KeepId,          \* FALSE.  TRUE: DoQ WriteMsg does not zero the message ID
  SecondWrite,     \* FALSE.  TRUE: the base writer accepts a second write
  UdpClamp,        \* FALSE.  TRUE: the edns writer treats these transports as UDP (TC=1 on a large answer)
  KeepaliveAny,    \* FALSE.  TRUE: keepalive advertised to any non-UDP client that asked
  ReflectUpstream, \* FALSE.  TRUE: the options of an upstream OPT are passed on
  NoPrefixCheck,   \* FALSE.  TRUE: DoQ does not compare the length prefix with the stream length
  StaleWriter,     \* FALSE.  TRUE: the DoH per-exchange writer is reused without a reset
  QrGate           \* FALSE in the code: ServeMsg does not look at QR.  TRUE: responses are dropped

ClientId == 7
RandId == 9

Forms == {"get", "post", "json", "frame"}
Kinds == {"a", "hit", "st", "pt", "dw", "bg", "sg", "op", "ph"}
EdnsKinds == {"none", "plain", "do", "ka", "all"}
MalKinds == {"none",
             \* well-formed framing, DNS-level oddities (decided by the chain)
             "qr", "opcode", "qd0", "qd2", "badvers",
             \* DoQ framing
             "short", "prefix-only", "empty", "len-long", "len-short", "two-msgs", "trailing", "garbage", "oversize",
             \* DoH wire format
             "b64-pad", "b64-std", "b64-junk", "method", "head", "ctype", "ctype-param", "noctype", "oversize-garbage",
             \* DoH JSON
             "json-noname", "json-badtype", "json-type0", "json-type65536", "json-post"}

ReqT == [form : Forms, mal : MalKinds, kind : Kinds, idnz : BOOLEAN, edns : EdnsKinds, ad : BOOLEAN, cd : BOOLEAN]
NoReq == [form |-> "none"]
None == [t |-> "none"]

ASSUME /\ \A i \in 1..Len(ReqSeq) : ReqSeq[i] \in ReqT
       /\ TrOf \in [Conns -> {"h1", "h2", "h3", "doq"}]
       /\ Atomic \in {"free", "gate"}
       /\ \A i \in 1..Len(ReqSeq) : ReqSeq[i].kind = "ph" => ReqSeq[i].form # "frame"

VARIABLES
  pc,          \* [Exch -> control point of the exchange's server goroutine]
  req,         \* [Exch -> the request the client sent]
  cn,          \* [Exch -> its connection]
  eg,          \* [Exch -> generation of the connection when the exchange started]
  cid,         \* [Exch -> the message ID the chain sees]
  written,     \* [Exch -> the base response writer's written-once mark]
  mw,          \* [Exch -> DoH: what the exchange's mock.Writer holds]
  out,         \* [Exch -> what the client received on this exchange, in order]
  conn,        \* [Conns -> [open, gen, code]]
  lastStream,  \* [Conns -> newest DoQ stream a writer was built for] (read by the WrongStream mutant only)
  lastMw       \* what the most recent DoH writer held (read by the StaleWriter mutant only)

vars == <<pc, req, cn, eg, cid, written, mw, out, conn, lastStream, lastMw>>

IsDoq(c) == TrOf[c] = "doq"
Doq(e) == IsDoq(cn[e])
Alive(e) == conn[cn[e]].open /\ conn[cn[e]].gen = eg[e]

\* ---------------------------------------------------------------------------
\* facts about a request, as the code's checks see them

HasOpt(r) == r.form = "json" \/ r.edns # "none" \/ r.mal = "badvers"
WantsDO(r) == r.edns \in {"do", "all"}
SentKA(r) == r.form # "json" /\ r.edns \in {"ka", "all"}
\* the AD bit of the request the chain serves: the JSON handler sets it itself
ReqAD(r) == r.form = "json" \/ r.ad
ReqId(r) == IF r.idnz THEN ClientId ELSE 0
QdCount(r) == CASE r.mal = "qd0" -> 0 [] r.mal = "qd2" -> 2 [] OTHER -> 1

\* DoQ handleStream, in the order of its checks
TooSmall(r) == r.mal \in {"short", "prefix-only", "empty"}
TooLarge(r) == r.mal = "oversize"
PrefixBad(r) == r.mal \in {"len-long", "len-short", "two-msgs", "trailing"}
\* dns.Msg.Unpack: fails on a body cut short, tolerates bytes behind the message
DoqUndecodable(r) == r.mal \in {"garbage", "len-long", "len-short"}

\* ServeHTTP: a GET without a dns parameter is the JSON API, everything else the wire handler
RoutedJSON(r) == r.form = "json" /\ r.mal # "json-post"
Method(r) == CASE r.mal \in {"method", "head"} -> "OTHER"
               [] r.form = "post" \/ r.mal = "json-post" -> "POST"
               [] OTHER -> "GET"
B64Bad(r) == r.mal \in {"b64-pad", "b64-std", "b64-junk"}
CTypeBad(r) == r.mal \in {"ctype", "ctype-param", "noctype", "json-post"}
ShortBody(r) == r.mal \in {"short", "empty"}
DohUndecodable(r) == r.mal \in {"garbage", "oversize-garbage"}
\* a POST body of one message followed by more bytes (a second message, filler up to and beyond
\* 65535): io.LimitReader cuts it, Unpack ignores the tail -- the leading message is served
JsonNameMissing(r) == r.mal = "json-noname"
JsonTypeBad(r) == r.mal \in {"json-badtype", "json-type0", "json-type65536"}

\* requests that never reach the chain: only a status / a connection error may come back
Rejected(e) ==
  LET r == req[e] IN
  IF Doq(e) THEN TooSmall(r) \/ TooLarge(r) \/ PrefixBad(r) \/ DoqUndecodable(r)
  ELSE Method(r) = "OTHER" \/ CTypeBad(r) \/ B64Bad(r) \/ ShortBody(r) \/ DohUndecodable(r)
       \/ JsonNameMissing(r) \/ JsonTypeBad(r)

DocStatus(r) ==
  IF RoutedJSON(r) THEN 400
  ELSE CASE Method(r) = "OTHER" -> 405
         [] Method(r) = "POST" /\ CTypeBad(r) -> 415
         [] OTHER -> 400

\* ---------------------------------------------------------------------------
\* replies

Reply(e, rc, op, q, opt, sigs, ad, tc, ka, foreign, big) ==
  [t |-> "dns", from |-> e, id |-> cid[e], rc |-> rc, op |-> op, q |-> q, opt |-> opt, sigs |-> sigs,
   ad |-> ad, tc |-> tc, ka |-> ka, foreign |-> foreign, big |-> big]

OpOf(r) == IF r.mal = "opcode" THEN "status" ELSE "query"

\* serveMsgBy: FORMERR built with SetRcode (question section: the first question, when there is one)
FormErr(e) == Reply(e, "formerr", "query", QdCount(req[e]) > 0, FALSE, FALSE, FALSE, FALSE, FALSE, FALSE, FALSE)
\* dnsutil.NotSupported: a bare header, AD set (as the code has it)
NotImp(e) == Reply(e, "notimp", OpOf(req[e]), FALSE, FALSE, FALSE, TRUE, FALSE, FALSE, FALSE, FALSE)
\* Chain.CancelWithRcode: question echoed, an OPT only toward a client that sent one
RcodeOnly(e, rc) == Reply(e, rc, "query", TRUE, HasOpt(req[e]), FALSE, FALSE, FALSE, FALSE, FALSE, FALSE)

\* the scripted upstream answer by kind, shaped by edns.ResponseWriter.WriteMsg
Shaped(e, rc) ==
  LET r == req[e]
      upSigs == r.kind = "sg"
      upAD == r.kind = "sg"
      upBig == r.kind = "bg"
      upOpt == r.kind = "op"
      noad == r.cd \/ (~ReqAD(r) /\ ~WantsDO(r))
      tc == UdpClamp /\ upBig
  IN Reply(e, rc, "query", TRUE, HasOpt(r), upSigs /\ WantsDO(r), upAD /\ ~noad /\ ~tc, tc,
           KeepaliveAny /\ SentKA(r), ReflectUpstream /\ upOpt /\ HasOpt(r), upBig /\ ~tc)

IsReply(it) == it.t \in {"dns", "json"}
Replies(e) == {i \in 1..Len(out[e]) : IsReply(out[e][i])}

\* ---------------------------------------------------------------------------
Init ==
  /\ pc = [e \in Exch |-> "free"]
  /\ req = [e \in Exch |-> NoReq]
  /\ cn = [e \in Exch |-> CHOOSE c \in Conns : TRUE]
  /\ eg = [e \in Exch |-> 0]
  /\ cid = [e \in Exch |-> 0]
  /\ written = [e \in Exch |-> FALSE]
  /\ mw = [e \in Exch |-> None]
  /\ out = [e \in Exch |-> <<>>]
  /\ conn = [c \in Conns |-> [open |-> TRUE, gen |-> 0, code |-> 0]]
  /\ lastStream = [c \in Conns |-> 0]
  /\ lastMw = None

Busy(e) == pc[e] \notin {"free", "parked", "done"}
Quiet == \A e \in Exch : ~Busy(e)
EnvOK == Atomic = "free" \/ Quiet
InFlight(c) == {e \in Exch : pc[e] \notin {"free", "done"} /\ cn[e] = c}

\* ---- delivery --------------------------------------------------------------
Deliver(o, e, item) == [o EXCEPT ![e] = Append(@, item)]

\* conn.CloseWithError(code): every stream of the connection that the client has not finished
\* reading ends with the application error
CloseConnOut(c, code) ==
  [f \in Exch |->
     IF pc[f] # "free" /\ cn[f] = c /\ eg[f] = conn[c].gen
        /\ (out[f] = <<>> \/ out[f][Len(out[f])].t \notin {"fin", "connerr"})
     THEN Append(out[f], [t |-> "connerr", code |-> code])
     ELSE out[f]]

\* ---- the client ------------------------------------------------------------
\* StartReq(e, c, r): the client opens exchange e on connection c and sends request r (DoQ: opens a
\* stream, writes the bytes, closes its sending side).  On a connection the server has closed the
\* stream cannot be opened: the client is handed the connection's error and nothing is sent.
StartReq(e, c, r) ==
  /\ EnvOK
  /\ pc[e] = "free"
  /\ \A f \in Exch : f < e => pc[f] # "free"
  /\ conn[c].open \/ IsDoq(c)
  /\ (r.form = "frame") <=> IsDoq(c)
  /\ TrOf[c] = "h1" => InFlight(c) = {}          \* HTTP/1.1: one exchange at a time
  /\ req' = [req EXCEPT ![e] = r]
  /\ cn' = [cn EXCEPT ![e] = c]
  /\ eg' = [eg EXCEPT ![e] = conn[c].gen]
  /\ IF conn[c].open
     THEN pc' = [pc EXCEPT ![e] = "sent"] /\ UNCHANGED out
     ELSE pc' = [pc EXCEPT ![e] = "done"] /\ out' = Deliver(out, e, [t |-> "connerr", code |-> conn[c].code])
  /\ UNCHANGED <<cid, written, mw, conn, lastStream, lastMw>>

Start(e, c, k) == StartReq(e, c, ReqSeq[k])

\* Redial(c): the client replaces a connection the server closed
Redial(c) ==
  /\ EnvOK
  /\ ~conn[c].open
  /\ conn[c].gen < MaxGen
  /\ InFlight(c) = {}
  /\ conn' = [conn EXCEPT ![c] = [open |-> TRUE, gen |-> @.gen + 1, code |-> 0]]
  /\ UNCHANGED <<pc, req, cn, eg, cid, written, mw, out, lastStream, lastMw>>

\* ---- DoQ -------------------------------------------------------------------
\* handleConnection: conn.AcceptStream; go handleStream
AcceptStream(e) ==
  /\ pc[e] = "sent" /\ Doq(e)
  /\ pc' = [pc EXCEPT ![e] = IF Alive(e) THEN "accepted" ELSE "done"]
  /\ UNCHANGED <<req, cn, eg, cid, written, mw, out, conn, lastStream, lastMw>>

\* io.ReadAll(io.LimitReader(stream, 65538)): returns at the client's FIN (or with the connection's error)
ReadAll(e) ==
  /\ pc[e] = "accepted"
  /\ pc' = [pc EXCEPT ![e] = IF Alive(e) THEN "read" ELSE "closing"]
  /\ UNCHANGED <<req, cn, eg, cid, written, mw, out, conn, lastStream, lastMw>>

DoqAbort(e) ==
  /\ conn' = [conn EXCEPT ![cn[e]] = IF Alive(e) THEN [@ EXCEPT !.open = FALSE, !.code = 2] ELSE @]
  /\ out' = IF Alive(e) THEN CloseConnOut(cn[e], 2) ELSE out
  /\ pc' = [pc EXCEPT ![e] = "closing"]

\* len < 14 | len > 65537 | prefix != len-2  ->  CloseWithError(ProtocolError)
CheckFrame(e) ==
  /\ pc[e] = "read"
  /\ LET r == req[e] IN
     IF TooSmall(r) \/ TooLarge(r) \/ (PrefixBad(r) /\ ~NoPrefixCheck)
     THEN DoqAbort(e)
     ELSE pc' = [pc EXCEPT ![e] = "framed"] /\ UNCHANGED <<conn, out>>
  /\ UNCHANGED <<req, cn, eg, cid, written, mw, lastStream, lastMw>>

\* req.Unpack(buf[2:]): an error closes the connection as well
Unpack(e) ==
  /\ pc[e] = "framed"
  /\ IF DoqUndecodable(req[e])
     THEN DoqAbort(e)
     ELSE pc' = [pc EXCEPT ![e] = "unpacked"] /\ UNCHANGED <<conn, out>>
  /\ UNCHANGED <<req, cn, eg, cid, written, mw, lastStream, lastMw>>

\* req.Id = dns.Id(); w := &ResponseWriter{Conn, Stream}
NewDoqWriter(e) ==
  /\ pc[e] = "unpacked"
  /\ cid' = [cid EXCEPT ![e] = RandId]
  /\ lastStream' = [lastStream EXCEPT ![cn[e]] = e]
  /\ written' = [written EXCEPT ![e] = FALSE]
  /\ pc' = [pc EXCEPT ![e] = "chain"]
  /\ UNCHANGED <<req, cn, eg, mw, out, conn, lastMw>>

\* deferred releaseMsg + stream.Close(): the client sees the end of the stream
CloseStream(e) ==
  /\ pc[e] \in {"ret", "closing"} /\ Doq(e)
  /\ out' = IF Alive(e) THEN Deliver(out, e, [t |-> "fin"]) ELSE out
  /\ pc' = [pc EXCEPT ![e] = "done"]
  /\ UNCHANGED <<req, cn, eg, cid, written, mw, conn, lastStream, lastMw>>

\* ---- DoH -------------------------------------------------------------------
Status(e, code) ==
  /\ out' = Deliver(out, e, [t |-> "status", code |-> code])
  /\ pc' = [pc EXCEPT ![e] = "done"]

\* Server.ServeHTTP: headers, then route
ServeHTTP(e) ==
  /\ pc[e] = "sent" /\ ~Doq(e)
  /\ pc' = [pc EXCEPT ![e] = IF RoutedJSON(req[e]) THEN "json" ELSE "wire"]
  /\ UNCHANGED <<req, cn, eg, cid, written, mw, out, conn, lastStream, lastMw>>

\* HandleWireFormat, the method switch
DecodeWire(e) ==
  /\ pc[e] = "wire"
  /\ LET r == req[e] IN
     CASE Method(r) = "OTHER" -> Status(e, 405)
       [] Method(r) = "POST" /\ CTypeBad(r) -> Status(e, 415)
       [] Method(r) = "GET" /\ B64Bad(r) -> Status(e, 400)
       [] OTHER -> pc' = [pc EXCEPT ![e] = "body"] /\ UNCHANGED out
  /\ UNCHANGED <<req, cn, eg, cid, written, mw, conn, lastStream, lastMw>>

\* len(buf) < 12 -> 400; req.Unpack error -> 400; then handle(req): mock.NewWriter("doh", r.RemoteAddr)
UnpackWire(e) ==
  /\ pc[e] = "body"
  /\ LET r == req[e] IN
     IF ShortBody(r) \/ DohUndecodable(r)
     THEN Status(e, 400) /\ UNCHANGED <<cid, mw, written>>
     ELSE /\ pc' = [pc EXCEPT ![e] = "chain"]
          /\ cid' = [cid EXCEPT ![e] = ReqId(r)]
          /\ mw' = [mw EXCEPT ![e] = IF StaleWriter THEN lastMw ELSE None]
          /\ written' = [written EXCEPT ![e] = FALSE]
          /\ UNCHANGED out
  /\ UNCHANGED <<req, cn, eg, conn, lastStream, lastMw>>

\* HandleJSON: name and type checks, then a request of the server's own making (SetQuestion: fresh ID; AD set; OPT)
BuildJSON(e) ==
  /\ pc[e] = "json"
  /\ LET r == req[e] IN
     IF JsonNameMissing(r) \/ JsonTypeBad(r)
     THEN Status(e, 400) /\ UNCHANGED <<cid, mw, written>>
     ELSE /\ pc' = [pc EXCEPT ![e] = "chain"]
          /\ cid' = [cid EXCEPT ![e] = RandId]
          /\ mw' = [mw EXCEPT ![e] = IF StaleWriter THEN lastMw ELSE None]
          /\ written' = [written EXCEPT ![e] = FALSE]
          /\ UNCHANGED out
  /\ UNCHANGED <<req, cn, eg, conn, lastStream, lastMw>>

\* after handle(): !mw.Written() -> 400, else Pack / Marshal and 200
Respond(e) ==
  /\ pc[e] = "ret" /\ ~Doq(e)
  /\ IF mw[e] = None
     THEN Status(e, 400)
     ELSE /\ out' = Deliver(out, e, [mw[e] EXCEPT !.t = IF RoutedJSON(req[e]) THEN "json" ELSE "dns"])
          /\ pc' = [pc EXCEPT ![e] = "done"]
  /\ UNCHANGED <<req, cn, eg, cid, written, mw, conn, lastStream, lastMw>>

\* a panic that left the chain: net/http / http3 recover, the stream is reset (HTTP/1.1: the connection closed)
HttpGuard(e) ==
  /\ pc[e] = "panicked" /\ ~Doq(e)
  /\ out' = Deliver(out, e, [t |-> "reset"])
  /\ pc' = [pc EXCEPT ![e] = "done"]
  /\ UNCHANGED <<req, cn, eg, cid, written, mw, conn, lastStream, lastMw>>

\* ---- the writers -------------------------------------------------------------
\* Transport.WriteMsg.  DoQ: m.Id = 0, pack, prefix, Stream.Write (lost when the connection is gone).
\* DoH: the mock writer keeps the message (a later one replaces it).
TransportWrite(e, rep) ==
  IF Doq(e)
  THEN LET tgt == IF WrongStream /\ lastStream[cn[e]] # 0 THEN lastStream[cn[e]] ELSE e
           item == [rep EXCEPT !.id = IF KeepId THEN rep.id ELSE 0]
       IN /\ out' = IF Alive(e) /\ Alive(tgt) /\ pc[tgt] # "done" THEN Deliver(out, tgt, item) ELSE out
          /\ UNCHANGED <<mw, lastMw>>
  ELSE /\ mw' = [mw EXCEPT ![e] = rep]
       /\ lastMw' = rep
       /\ UNCHANGED out

\* responseWriter.WriteMsg: refused once written
ChainWrite(e, rep) ==
  IF written[e] /\ ~SecondWrite
  THEN UNCHANGED <<written, out, mw, lastMw>>
  ELSE written' = [written EXCEPT ![e] = TRUE] /\ TransportWrite(e, rep)

\* ---- the chain -----------------------------------------------------------------
\* Server.ServeMsg up to the point where the request either was answered or reached the tail
ServeMsg(e) ==
  /\ pc[e] = "chain"
  /\ LET r == req[e]
         quiet(to) == pc' = [pc EXCEPT ![e] = to] /\ UNCHANGED <<written, out, mw, lastMw>>
     IN
     IF QdCount(r) # 1
     THEN \* serveMsgBy: FORMERR written on the transport itself, ahead of any chain writer
          TransportWrite(e, FormErr(e)) /\ pc' = [pc EXCEPT ![e] = "ret"] /\ UNCHANGED written
     ELSE IF r.kind = "ph"                       \* the scripted handler ahead of recovery
     THEN quiet("panicked")
     ELSE IF QrGate /\ r.mal = "qr"              \* (not in the code)
     THEN quiet("ret")
     ELSE IF r.mal = "opcode"                    \* edns: dnsutil.NotSupported
     THEN ChainWrite(e, NotImp(e)) /\ pc' = [pc EXCEPT ![e] = "ret"]
     ELSE IF r.mal = "badvers"                   \* edns: CancelWithRcode(BADVERS)
     THEN ChainWrite(e, RcodeOnly(e, "badvers")) /\ pc' = [pc EXCEPT ![e] = "ret"]
     ELSE IF r.kind = "hit"                      \* cache: served, the tail is never reached
     THEN ChainWrite(e, Shaped(e, "ok")) /\ pc' = [pc EXCEPT ![e] = "ret"]
     ELSE quiet("parked")
  /\ UNCHANGED <<req, cn, eg, cid, conn, lastStream>>

\* TailRun(e): the scripted tail runs (the driver opened its gate)
TailRun(e) ==
  /\ EnvOK
  /\ pc[e] = "parked"
  /\ LET k == req[e].kind IN
     CASE k = "st" -> pc' = [pc EXCEPT ![e] = "ret"] /\ UNCHANGED <<written, out, mw, lastMw>>
       [] k = "pt" -> \* panic -> recovery -> CancelWithRcode(SERVFAIL)
                      ChainWrite(e, RcodeOnly(e, "servfail")) /\ pc' = [pc EXCEPT ![e] = "ret"]
       [] k = "dw" -> ChainWrite(e, Shaped(e, "ok")) /\ pc' = [pc EXCEPT ![e] = "again"]
       [] OTHER -> ChainWrite(e, Shaped(e, "ok")) /\ pc' = [pc EXCEPT ![e] = "ret"]
  /\ UNCHANGED <<req, cn, eg, cid, conn, lastStream>>

\* the "dw" tail writes a second, different reply for the same request
TailAgain(e) ==
  /\ pc[e] = "again"
  /\ ChainWrite(e, Shaped(e, "refused"))
  /\ pc' = [pc EXCEPT ![e] = "ret"]
  /\ UNCHANGED <<req, cn, eg, cid, conn, lastStream>>

Internal(e) ==
  \/ AcceptStream(e) \/ ReadAll(e) \/ CheckFrame(e) \/ Unpack(e) \/ NewDoqWriter(e) \/ CloseStream(e)
  \/ ServeHTTP(e) \/ DecodeWire(e) \/ UnpackWire(e) \/ BuildJSON(e) \/ Respond(e) \/ HttpGuard(e)
  \/ ServeMsg(e) \/ TailAgain(e)

Next ==
  \/ \E e \in Exch, c \in Conns, k \in 1..Len(ReqSeq) : Start(e, c, k)
  \/ \E c \in Conns : Redial(c)
  \/ \E e \in Exch : TailRun(e)
  \/ \E e \in Exch : Internal(e)

Spec == Init /\ [][Next]_vars
FairSpec == Spec /\ \A e \in Exch : WF_vars(Internal(e)) /\ WF_vars(TailRun(e))

\* ---------------------------------------------------------------------------
ItemT == [t : {"dns", "json"}, from : Exch, id : {0, ClientId, RandId},
          rc : {"ok", "servfail", "formerr", "notimp", "badvers", "refused"}, op : {"query", "status"},
          q : BOOLEAN, opt : BOOLEAN, sigs : BOOLEAN, ad : BOOLEAN, tc : BOOLEAN, ka : BOOLEAN,
          foreign : BOOLEAN, big : BOOLEAN]
      \cup [t : {"status"}, code : {400, 405, 415, 500}]
      \cup [t : {"fin", "reset"}]
      \cup [t : {"connerr"}, code : {2}]

TypeOK ==
  /\ pc \in [Exch -> {"free", "sent", "accepted", "read", "framed", "unpacked", "wire", "json", "body", "chain",
                      "parked", "again", "ret", "panicked", "closing", "done"}]
  /\ \A e \in Exch : req[e] = NoReq \/ req[e] \in ReqT
  /\ cn \in [Exch -> Conns]
  /\ cid \in [Exch -> {0, ClientId, RandId}]
  /\ written \in [Exch -> BOOLEAN]
  /\ \A e \in Exch : mw[e] = None \/ mw[e] \in ItemT
  /\ \A e \in Exch : \A i \in 1..Len(out[e]) : out[e][i] \in ItemT
  /\ \A c \in Conns : conn[c].open \in BOOLEAN /\ conn[c].gen \in 0..MaxGen /\ conn[c].code \in {0, 2}

\* ---- C10: one reply per exchange, on the exchange whose query it answers ----
AtMostOneReply == \A e \in Exch : Cardinality(Replies(e)) <= 1

\* an HTTP exchange ends in exactly one of: a reply, a status, a reset
OneHttpResponse ==
  \A e \in Exch : (pc[e] # "free" /\ ~Doq(e)) =>
    Cardinality({i \in 1..Len(out[e]) : out[e][i].t \in {"dns", "json", "status", "reset"}}) <= 1

ReplyIsOwn == \A e \in Exch : \A i \in Replies(e) : out[e][i].from = e

\* a finished exchange whose request reached a handler that answers has its reply, unless its
\* connection was torn down under it
Served(e) ==
  /\ ~Rejected(e)
  /\ req[e].kind \notin {"st", "ph"}
  /\ ~(QrGate /\ req[e].mal = "qr")
ExactlyOneWhenServed ==
  \A e \in Exch : (pc[e] = "done" /\ Served(e) /\ Alive(e)) => Cardinality(Replies(e)) = 1

\* what the handler decided in silence stays silent, with the documented ending
SilentStaysSilent ==
  \A e \in Exch : (pc[e] = "done" /\ ~Rejected(e) /\ req[e].kind = "st" /\ QdCount(req[e]) = 1
                   /\ req[e].mal \notin {"opcode", "badvers"} /\ ~(QrGate /\ req[e].mal = "qr")) =>
      /\ Replies(e) = {}
      /\ ~Doq(e) => out[e] = <<[t |-> "status", code |-> 400]>>
      /\ (Doq(e) /\ Alive(e)) => out[e] = <<[t |-> "fin"]>>

PanicAheadIsReset ==
  \A e \in Exch : (pc[e] = "done" /\ ~Rejected(e) /\ req[e].kind = "ph" /\ QdCount(req[e]) = 1) =>
      out[e] = <<[t |-> "reset"]>>

\* ---- C06 / framing: malformed input never draws a DNS reply ----
GarbageNeverAnswered == \A e \in Exch : (pc[e] # "free" /\ Rejected(e)) => Replies(e) = {}

DocumentedRejection ==
  \A e \in Exch : (pc[e] = "done" /\ Rejected(e)) =>
      IF Doq(e)
      THEN \* DOQ_PROTOCOL_ERROR on the connection (unless another stream had closed it already)
           /\ ~conn[cn[e]].open \/ conn[cn[e]].gen # eg[e]
           /\ \A i \in 1..Len(out[e]) : out[e][i] = [t |-> "connerr", code |-> 2]
      ELSE out[e] = <<[t |-> "status", code |-> DocStatus(req[e])]>>

\* ---- C06: the reply contract ----
IdRule ==
  \A e \in Exch : \A i \in Replies(e) :
    LET it == out[e][i] IN
    IF Doq(e) THEN it.id = 0
    ELSE it.t = "dns" => it.id = ReqId(req[e])

Bare(it) == it.rc \in {"formerr", "notimp"} /\ ~it.q
EchoRule ==
  \A e \in Exch : \A i \in Replies(e) :
    LET it == out[e][i] IN
    /\ it.op = OpOf(req[e])
    /\ ~Bare(it) => (it.q \/ (it.rc = "formerr" /\ QdCount(req[e]) = 0))

NegotiatedOnly ==
  \A e \in Exch : \A i \in Replies(e) :
    LET it == out[e][i]
        r == req[e]
    IN ~Bare(it) =>
       /\ it.opt => HasOpt(r)
       /\ it.sigs => WantsDO(r)
       /\ it.ad => (~r.cd /\ (WantsDO(r) \/ ReqAD(r)))
       /\ ~it.foreign

\* these are stream transports: no UDP clamp, no keepalive advertisement (RFC 9250 5.5.2 forbids it over DoQ;
\* the code sends it over plain TCP only)
NeverTruncated == \A e \in Exch : \A i \in Replies(e) : ~out[e][i].tc
LargeArrivesWhole ==
  \A e \in Exch : \A i \in Replies(e) : (req[e].kind = "bg" /\ out[e][i].rc = "ok") => out[e][i].big
NoKeepalive == \A e \in Exch : \A i \in Replies(e) : ~out[e][i].ka

\* the first reply stands: a refused second write changes nothing
FirstReplyStands ==
  \A e \in Exch : \A i \in Replies(e) : req[e].kind = "dw" => out[e][i].rc # "refused"

\* the clause of C06 about responses; the ServeMsg entry has no such gate (QrGate = FALSE is the code)
ResponsesNeverAnswered == \A e \in Exch : (pc[e] # "free" /\ req[e].mal = "qr") => Replies(e) = {}

\* ---- action properties ----
\* what a client has received is never taken back or rewritten
OutOnlyGrows ==
  [][\A e \in Exch : Len(out'[e]) >= Len(out[e]) /\ SubSeq(out'[e], 1, Len(out[e])) = out[e]]_vars

\* nothing arrives on a stream after its end, and nothing after the connection error
NothingAfterEnd ==
  [][\A e \in Exch :
       (out[e] # <<>> /\ out[e][Len(out[e])].t \in {"fin", "connerr", "status", "reset"}) => out'[e] = out[e]]_vars

\* ---- liveness (FairSpec) ----
EveryExchangeEnds == \A e \in Exch : (pc[e] = "sent") ~> (pc[e] = "done")

=============================================================================
