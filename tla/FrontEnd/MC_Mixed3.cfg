CONSTANTS
  Exch = {1, 2, 3}
  Conns = {1, 2}
  TrOf <- DoqAndH2
  ReqSeq <- Mixed
  Atomic = "free"
  MaxGen = 1
  WrongStream = FALSE
  KeepId = FALSE
  SecondWrite = FALSE
  UdpClamp = FALSE
  KeepaliveAny = FALSE
  ReflectUpstream = FALSE
  NoPrefixCheck = FALSE
  StaleWriter = FALSE
  QrGate = FALSE
SPECIFICATION Spec
INVARIANTS TypeOK AtMostOneReply OneHttpResponse ReplyIsOwn ExactlyOneWhenServed SilentStaysSilent PanicAheadIsReset
  GarbageNeverAnswered DocumentedRejection IdRule EchoRule NegotiatedOnly NeverTruncated LargeArrivesWhole
  NoKeepalive FirstReplyStands
PROPERTIES OutOnlyGrows NothingAfterEnd
CHECK_DEADLOCK FALSE
