---------------------------- MODULE LazyDeadline ----------------------------
(***************************************************************************)
(* X11DL (serves C11): internal/contextutil.LazyDeadline -- the request     *)
(* context of every query (server.serveMsgBy, Chain.detachStrictContext).   *)
(* Its absolute deadline (arrival + querytimeout, never later than the      *)
(* parent's) is visible at once; the timer and the parent-cancellation      *)
(* registration (a stdlib context.WithDeadline child, the "holder") are     *)
(* armed only by the first Done() / the first Err() that sees a terminal    *)
(* cause; Cancel() releases an armed holder, or records the terminal cause  *)
(* in `state` without ever arming one (the cache-hit fast path).            *)
(*                                                                         *)
(* One action per atomic step of lazy_deadline.go:                          *)
(*   Done():   XEnter  active.Load()                      (lock free)       *)
(*             XLock   mu.Lock; active.Load(); state.Load()                 *)
(*             XMat    materializeLocked = context.WithDeadline(parent,     *)
(*                     deadline): reads the parent's cancellation and the   *)
(*                     clock, registers with the parent, arms the timer;    *)
(*                     active.Store; mu.Unlock                              *)
(*   Err():    EEnter  active.Load(); state.Load()        (lock free)       *)
(*             EParent parent.Err(); time.Now()           (lock free)       *)
(*             then materialize() as in Done()                              *)
(*   Cancel(): CLock   mu.Lock; active.Load() -> holder.cancel();           *)
(*                     state.Load()                                         *)
(*             CParent parent.Err(); time.Now(); state.Store                *)
(*             CMat    materializeLocked; active.Store                      *)
(*   Deadline() returns the immutable field.                                *)
(* Environment: Tick (the wall clock passes the deadline), TimerFire (the   *)
(* runtime timer of an armed holder publishes DeadlineExceeded),            *)
(* ParentCancel, ParentExpire (a parent whose own deadline is the           *)
(* effective one), Propagate (the stdlib goroutine that forwards the        *)
(* cancellation of a non-stdlib parent).                                    *)
(*                                                                         *)
(* Deliberate deviations: time is the phase before/after the deadline;      *)
(* the two loads of EEnter are one step, as are parent.Err()+time.Now();    *)
(* the pin table / value provider of the same type are the subject of       *)
(* Ledger.tla (C12) and are not repeated here; context.Cause is not         *)
(* modelled.                                                                *)
(*                                                                         *)
(* Forced = TRUE restricts the schedules to those a harness can force on    *)
(* the real object through a gated parent context (parent.Err(), and        *)
(* parent.Deadline() -- the first thing context.WithDeadline asks -- are    *)
(* the only seams inside the calls): a step that cannot                     *)
(* be held back in the code (the first step of a call, a mutex waiter       *)
(* whose mutex is free) is taken before anything else, at most one          *)
(* goroutine waits for the mutex, and the asynchronous environment steps    *)
(* are composed into Tick / ParentCancel (the harness waits for them).      *)
(***************************************************************************)
EXTENDS Integers, Sequences, FiniteSets, TLC

CONSTANTS
  Procs,        \* goroutines sharing the request context
  ParentKind,   \* "none" (Background) | "cancel" (stdlib cancelCtx) | "deadline" (stdlib parent whose earlier
                \*   deadline is the effective one) | "custom" (non-stdlib parent: propagation by goroutine)
  Forced,       \* see above
  Atomic,       \* TRUE: a call starts only when no other call is in progress (sequential call orders)
  OpSet,        \* SUBSET {"done", "err", "cancel", "deadline"}
  MaxOps,       \* calls per goroutine
  NoRecheck,    \* FALSE in the code.  TRUE: materialize() without the second active.Load() under the lock
                \*   (negative config: ArmOnce / ReleaseLeavesNothing must fail)
  CancelSkipsActive  \* FALSE in the code.  TRUE: Cancel() does not cancel an armed holder (negative config)

VARIABLES
  now,        \* "before" | "after" the deadline
  dl,         \* the deadline Deadline() reports ("own" | "parent": min of the two at construction)
  parentErr,  \* "nil" | "canceled" | "deadline"
  state,      \* "live" | "canceled" | "exceeded"      (c.state)
  active,     \* 0 = nil, else index into holders       (c.active)
  holders,    \* Seq of [err, timer, link]: every stdlib deadline context ever made by materializeLocked
  mu,         \* 0 = free, else the goroutine holding c.mu
  pc, opn, ops,
  lastRes,    \* [Procs -> result record of the last completed call]
  \* ghosts (oracle)
  floorC,     \* [Procs -> BOOLEAN] the call was invoked when the context was already observably terminal
  obsClosed,  \* some call has returned a closed channel / a non-nil error
  errSeen,    \* first non-nil Err() result
  released,   \* some Cancel() has returned
  cancelInv   \* some Cancel() has been invoked

vars == <<now, dl, parentErr, state, active, holders, mu, pc, opn, ops, lastRes, floorC, obsClosed, errSeen,
          released, cancelInv>>

Errs == {"nil", "canceled", "deadline"}
PCs == {"idle", "dEnter", "dLock", "dMat", "eEnter", "eParent", "eLock", "eMat", "cLock", "cParent", "cMat", "qEnter"}
NoRes == [k |-> "none", h |-> 0, c |-> FALSE, e |-> "nil"]
DoneRes(h, hs) == [k |-> "done", h |-> h, c |-> IF h = 0 THEN TRUE ELSE hs[h].err # "nil", e |-> "nil"]
ErrRes(e) == [k |-> "err", h |-> 0, c |-> FALSE, e |-> e]
CancelRes == [k |-> "cancel", h |-> 0, c |-> FALSE, e |-> "nil"]
DeadlineRes == [k |-> "deadline", h |-> 0, c |-> FALSE, e |-> dl]
ClosedObs(r) == (r.k = "done" /\ r.c) \/ (r.k = "err" /\ r.e # "nil")
LocalErr == IF state = "canceled" THEN "canceled" ELSE IF state = "exceeded" THEN "deadline" ELSE "nil"

Init ==
  /\ now = "before"
  /\ dl = IF ParentKind = "deadline" THEN "parent" ELSE "own"
  /\ parentErr = "nil"
  /\ state = "live"
  /\ active = 0
  /\ holders = <<>>
  /\ mu = 0
  /\ pc = [p \in Procs |-> "idle"]
  /\ opn = [p \in Procs |-> "none"]
  /\ ops = [p \in Procs |-> 0]
  /\ lastRes = [p \in Procs |-> NoRes]
  /\ floorC = [p \in Procs |-> FALSE]
  /\ obsClosed = FALSE
  /\ errSeen = "nil"
  /\ released = FALSE
  /\ cancelInv = FALSE

(* ---- the stdlib deadline context ------------------------------------------ *)
(* context.WithDeadline(parent, deadline): propagateCancel first (a cancelled
   parent wins), then `time.Until(d) <= 0` (already expired), else the timer. *)
NewHolder ==
  IF parentErr # "nil" THEN [err |-> parentErr, timer |-> FALSE, link |-> FALSE]
  ELSE IF now = "after" THEN [err |-> "deadline", timer |-> FALSE, link |-> FALSE]
  ELSE [err |-> "nil", timer |-> TRUE, link |-> ParentKind # "none"]

Terminal(h, e) == IF h.err = "nil" THEN [err |-> e, timer |-> FALSE, link |-> FALSE] ELSE h
TerminalAll(hs, e, cond(_)) == [i \in DOMAIN hs |-> IF cond(hs[i]) THEN Terminal(hs[i], e) ELSE hs[i]]

(* a terminal cause is known to the environment but has not reached an armed holder yet *)
PendingAsync ==
  \E i \in DOMAIN holders : holders[i].err = "nil" /\ ((holders[i].timer /\ now = "after") \/ (holders[i].link /\ parentErr # "nil"))

(* ---- scheduling restrictions of the forced mode ---------------------------- *)
Pending(w) == pc[w] \in {"dLock", "eLock", "cLock"}
Urgent(w) == pc[w] \in {"dEnter", "eEnter", "qEnter"} \/ (Pending(w) /\ mu = 0)
Free(p) == Forced => \A w \in Procs \ {p} : ~Urgent(w)
EnvFree == /\ Forced => \A w \in Procs : ~Urgent(w)
           /\ Atomic => \A w \in Procs : pc[w] = "idle"
MayPend(p) == Forced => \A w \in Procs \ {p} : ~Pending(w)

(* ---- bookkeeping ----------------------------------------------------------- *)
Effect(p, npc, nmu, nstate, nactive, nholders, r) ==
  /\ pc' = [pc EXCEPT ![p] = npc]
  /\ mu' = nmu
  /\ state' = nstate
  /\ active' = nactive
  /\ holders' = nholders
  /\ IF r = NoRes
       THEN UNCHANGED <<lastRes, obsClosed, errSeen, released>>
       ELSE /\ lastRes' = [lastRes EXCEPT ![p] = r]
            /\ obsClosed' = (obsClosed \/ ClosedObs(r))
            /\ errSeen' = IF r.k = "err" /\ r.e # "nil" /\ errSeen = "nil" THEN r.e ELSE errSeen
            /\ released' = (released \/ r.k = "cancel")
  /\ UNCHANGED <<now, dl, parentErr>>

Same(p, npc, r) == Effect(p, npc, mu, state, active, holders, r)

(* invocation: nothing shared is touched yet *)
Call(p, name, npc) ==
  /\ pc[p] = "idle"
  /\ name \in OpSet
  /\ ops[p] < MaxOps
  /\ Atomic => \A q \in Procs : pc[q] = "idle"
  /\ Free(p)
  /\ ops' = [ops EXCEPT ![p] = @ + 1]
  /\ opn' = [opn EXCEPT ![p] = name]
  /\ floorC' = [floorC EXCEPT ![p] = obsClosed \/ released \/ ((parentErr # "nil" \/ now = "after") /\ ~PendingAsync)]
  /\ Same(p, npc, NoRes)

Step(p) == Free(p) /\ UNCHANGED <<opn, ops, floorC, cancelInv>>

(* ---- Done() ----------------------------------------------------------------- *)
DoneCall(p) == Call(p, "done", "dEnter") /\ UNCHANGED cancelInv

(* materialize(): `if active := c.active.Load(); active != nil { return active }` *)
DoneEnter(p) ==
  /\ pc[p] = "dEnter" /\ Step(p)
  /\ IF active # 0 THEN Same(p, "idle", DoneRes(active, holders))
     ELSE MayPend(p) /\ Same(p, "dLock", NoRes)

(* c.mu.Lock(); second look at active; state; (the lock is released again in the same step when
   nothing is armed) *)
Locked(p, matpc, resActive, resLocal) ==
  /\ mu = 0
  /\ IF ~NoRecheck /\ active # 0 THEN Same(p, "idle", resActive)
     ELSE IF state # "live" THEN Same(p, "idle", resLocal)
     ELSE Effect(p, matpc, p, state, active, holders, NoRes)

DoneLock(p) ==
  /\ pc[p] = "dLock" /\ Step(p)
  /\ Locked(p, "dMat", DoneRes(active, holders), DoneRes(0, holders))

(* materializeLocked(); c.active.Store(active); unlock *)
Mat(p, res(_, _)) ==
  LET hs == Append(holders, NewHolder)  h == Len(holders) + 1 IN
  Effect(p, "idle", 0, state, h, hs, res(h, hs))

DoneMat(p) == pc[p] = "dMat" /\ Step(p) /\ Mat(p, DoneRes)

(* ---- Err() ------------------------------------------------------------------ *)
ErrCall(p) == Call(p, "err", "eEnter") /\ UNCHANGED cancelInv

ErrEnter(p) ==
  /\ pc[p] = "eEnter" /\ Step(p)
  /\ IF active # 0 THEN Same(p, "idle", ErrRes(holders[active].err))
     ELSE IF state # "live" THEN Same(p, "idle", ErrRes(LocalErr))
     ELSE Same(p, "eParent", NoRes)

(* `if c.parent.Err() == nil && time.Now().Before(c.deadline) { return nil }`, else materialize() *)
ErrParent(p) ==
  /\ pc[p] = "eParent" /\ Step(p)
  /\ IF parentErr = "nil" /\ now = "before" THEN Same(p, "idle", ErrRes("nil"))
     ELSE IF active # 0 THEN Same(p, "idle", ErrRes(holders[active].err))
     ELSE MayPend(p) /\ Same(p, "eLock", NoRes)

ErrLock(p) ==
  /\ pc[p] = "eLock" /\ Step(p)
  /\ Locked(p, "eMat", ErrRes(IF active # 0 THEN holders[active].err ELSE "nil"), ErrRes(LocalErr))

ErrOfNew(h, hs) == ErrRes(hs[h].err)
ErrMat(p) == pc[p] = "eMat" /\ Step(p) /\ Mat(p, ErrOfNew)

(* ---- Cancel() --------------------------------------------------------------- *)
CancelCall(p) ==
  /\ MayPend(p)
  /\ Call(p, "cancel", "cLock")
  /\ cancelInv' = TRUE

CancelLock(p) ==
  /\ pc[p] = "cLock" /\ Step(p)
  /\ mu = 0
  /\ IF active # 0
       THEN Effect(p, "idle", 0, state, active,
                   IF CancelSkipsActive THEN holders ELSE [holders EXCEPT ![active] = Terminal(@, "canceled")], CancelRes)
     ELSE IF state # "live" THEN Same(p, "idle", CancelRes)
     ELSE Effect(p, "cParent", p, state, active, holders, NoRes)

(* parentErr := c.parent.Err(); non-nil -> materialize (the parent's first cause is inherited);
   else the terminal cause is recorded locally: Exceeded past the deadline, Canceled before it *)
CancelParent(p) ==
  /\ pc[p] = "cParent" /\ Step(p)
  /\ IF parentErr # "nil" THEN Same(p, "cMat", NoRes)
     ELSE Effect(p, "idle", 0, IF now = "after" THEN "exceeded" ELSE "canceled", active, holders, CancelRes)

CancelOfNew(h, hs) == CancelRes
CancelMat(p) == pc[p] = "cMat" /\ Step(p) /\ Mat(p, CancelOfNew)

(* ---- Deadline() ------------------------------------------------------------- *)
DeadlineCall(p) == Call(p, "deadline", "qEnter") /\ UNCHANGED cancelInv
DeadlineEnter(p) == pc[p] = "qEnter" /\ Step(p) /\ Same(p, "idle", DeadlineRes)

(* ---- environment ------------------------------------------------------------- *)
Env == UNCHANGED <<dl, state, active, mu, pc, opn, ops, lastRes, floorC, obsClosed, errSeen, released, cancelInv>>
IsArmed(h) == h.timer
IsLinked(h) == h.link

(* the clock passes the deadline; forced mode: the harness also waits until every armed timer (and a
   deadline parent) has published *)
Tick ==
  /\ now = "before" /\ EnvFree
  /\ now' = "after"
  /\ IF Forced
       THEN /\ parentErr' = IF ParentKind = "deadline" THEN "deadline" ELSE parentErr
            /\ holders' = TerminalAll(holders, "deadline", IsArmed)
       ELSE UNCHANGED <<parentErr, holders>>
  /\ Env

TimerFire(i) ==
  /\ ~Forced /\ i \in DOMAIN holders
  /\ now = "after" /\ holders[i].timer /\ holders[i].err = "nil"
  /\ holders' = [holders EXCEPT ![i] = Terminal(@, "deadline")]
  /\ UNCHANGED <<now, parentErr>> /\ Env

(* a stdlib parent cancels its registered children inside cancel(); a non-stdlib parent is followed
   by the goroutine context.propagateCancel started (Propagate) *)
ParentCancel ==
  /\ ParentKind \in {"cancel", "custom"} /\ parentErr = "nil" /\ EnvFree
  /\ parentErr' = "canceled"
  /\ holders' = IF ParentKind = "cancel" \/ Forced THEN TerminalAll(holders, "canceled", IsLinked) ELSE holders
  /\ UNCHANGED now /\ Env

ParentExpire ==
  /\ ~Forced /\ ParentKind = "deadline" /\ now = "after" /\ parentErr = "nil"
  /\ parentErr' = "deadline"
  /\ holders' = TerminalAll(holders, "deadline", IsLinked)
  /\ UNCHANGED now /\ Env

Propagate(i) ==
  /\ ~Forced /\ ParentKind = "custom" /\ i \in DOMAIN holders
  /\ holders[i].link /\ parentErr # "nil" /\ holders[i].err = "nil"
  /\ holders' = [holders EXCEPT ![i] = Terminal(@, parentErr)]
  /\ UNCHANGED <<now, parentErr>> /\ Env

ProcNext(p) ==
  \/ DoneCall(p) \/ DoneEnter(p) \/ DoneLock(p) \/ DoneMat(p)
  \/ ErrCall(p) \/ ErrEnter(p) \/ ErrParent(p) \/ ErrLock(p) \/ ErrMat(p)
  \/ CancelCall(p) \/ CancelLock(p) \/ CancelParent(p) \/ CancelMat(p)
  \/ DeadlineCall(p) \/ DeadlineEnter(p)

EnvNext == Tick \/ ParentCancel \/ ParentExpire \/ (\E i \in 1..3 : TimerFire(i) \/ Propagate(i))

Next == (\E p \in Procs : ProcNext(p)) \/ EnvNext

Spec == Init /\ [][Next]_vars

(* every started call finishes, armed timers fire, propagation goroutines run *)
FairSpec ==
  /\ Spec
  /\ \A p \in Procs : WF_vars(DoneEnter(p) \/ DoneLock(p) \/ DoneMat(p) \/ ErrEnter(p) \/ ErrParent(p) \/ ErrLock(p)
                              \/ ErrMat(p) \/ CancelLock(p) \/ CancelParent(p) \/ CancelMat(p) \/ DeadlineEnter(p))
  /\ WF_vars(\E i \in 1..3 : TimerFire(i))
  /\ WF_vars(\E i \in 1..3 : Propagate(i))
  /\ WF_vars(ParentExpire)

(* ------------------------------- properties ---------------------------------- *)
TypeOK ==
  /\ now \in {"before", "after"}
  /\ dl \in {"own", "parent"}
  /\ parentErr \in Errs
  /\ state \in {"live", "canceled", "exceeded"}
  /\ active \in 0..Len(holders)
  /\ \A i \in DOMAIN holders : holders[i].err \in Errs /\ holders[i].timer \in BOOLEAN /\ holders[i].link \in BOOLEAN
  /\ mu \in {0} \cup Procs
  /\ pc \in [Procs -> PCs]
  /\ \A p \in Procs : lastRes[p].k \in {"none", "done", "err", "cancel", "deadline"}

(* the mutex: exactly the goroutine inside a critical section holds it *)
MutexOK == \A p \in Procs : (mu = p) = (pc[p] \in {"dMat", "eMat", "cParent", "cMat"})

(* arming is idempotent: concurrent first Done()/Err()/Cancel() calls make one holder *)
ArmOnce == Len(holders) <= 1
ActiveStable == [][active # 0 => active' = active]_vars
(* the two representations of "terminal" exclude each other and are written once *)
OneRepresentation == ~(state # "live" /\ active # 0)
StateLatched == [][state # "live" => state' = state]_vars
HolderErrLatched == [][\A i \in DOMAIN holders : holders[i].err # "nil" => holders'[i] = holders[i]]_vars
(* a terminal holder has no timer and no parent registration (stdlib contract the code relies on) *)
TerminalHolderIsBare == \A i \in DOMAIN holders : holders[i].err # "nil" => ~holders[i].timer /\ ~holders[i].link

(* what Done() would hand out is closed *)
Closed == (active # 0 /\ holders[active].err # "nil") \/ (active = 0 /\ state # "live")
ClosedStaysClosed == [][Closed => Closed']_vars
(* closed only for a reason: the deadline passed, the parent was cancelled, or Cancel() was called *)
ClosedHasCause == Closed => (now = "after" \/ parentErr # "nil" \/ cancelInv)
(* the deadline never moves *)
DeadlineFixed == [][dl' = dl]_vars

Returns(p) == pc[p] # "idle" /\ pc'[p] = "idle"
(* API level.  A call invoked after the context was observably terminal (a closed channel or a non-nil
   error was returned, Cancel() returned, or a cause was in force with nothing asynchronous pending)
   reports terminal: once closed stays closed, Err() is nil before and non-nil after *)
TerminalIsSticky ==
  [][\A p \in Procs : (Returns(p) /\ floorC[p] /\ lastRes'[p].k \in {"done", "err"}) => ClosedObs(lastRes'[p])]_vars
(* DeadlineExceeded vs Canceled is decided once: every non-nil Err() agrees with the first *)
ErrDecidedOnce ==
  [][\A p \in Procs : (Returns(p) /\ lastRes'[p].k = "err" /\ lastRes'[p].e # "nil" /\ errSeen # "nil")
        => lastRes'[p].e = errSeen]_vars
(* nothing reports terminal without a cause *)
NoPrematureClose ==
  [][\A p \in Procs : (Returns(p) /\ ClosedObs(lastRes'[p])) => (now = "after" \/ parentErr # "nil" \/ cancelInv)]_vars
(* the kind has its cause: Canceled needs a cancellation, DeadlineExceeded needs the clock *)
KindHasCause ==
  /\ errSeen = "canceled" => (cancelInv \/ parentErr = "canceled")
  /\ errSeen = "deadline" => now = "after"
(* a cancelled parent is preferred over an elapsed deadline and over the local Cancel() *)
ParentPreferred ==
  [][\A p \in Procs : (Returns(p) /\ pc[p] \in {"eMat", "cMat", "dMat"} /\ parentErr # "nil")
        => holders'[active'].err = parentErr]_vars
DeadlineReported == [][\A p \in Procs : (Returns(p) /\ lastRes'[p].k = "deadline") => lastRes'[p].e = dl]_vars

(* release: after a Cancel() returned the context is terminal and no timer, parent registration or
   propagation goroutine of any holder survives *)
ReleaseCloses == released => Closed
ReleaseLeavesNothing == released => \A i \in DOMAIN holders : ~holders[i].timer /\ ~holders[i].link

(* liveness (FairSpec): calls return; a passed deadline / cancelled parent reaches an armed holder *)
CallsReturn == \A p \in Procs : (pc[p] # "idle") ~> (pc[p] = "idle")
CauseReachesHolder == (active # 0 /\ (now = "after" \/ parentErr # "nil")) ~> Closed
=============================================================================
