CONSTANTS
  Procs = {1, 2}
  ParentKind = "custom"
  Forced = FALSE
  Atomic = FALSE
  OpSet <- CoreOps
  MaxOps = 1
  NoRecheck = FALSE
  CancelSkipsActive = FALSE
SPECIFICATION FairSpec
INVARIANTS TypeOK
PROPERTIES CallsReturn CauseReachesHolder
CHECK_DEADLOCK FALSE
