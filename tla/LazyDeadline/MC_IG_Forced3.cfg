CONSTANTS
  Procs = {1, 2, 3}
  Slots = 2
  MaxOps = 2
  Forced = TRUE
  CanClose = TRUE
  DisarmFloor = 0
  NoArmAfterFire = FALSE
  DisarmNoLock = FALSE
SPECIFICATION Spec
INVARIANTS TypeOK MutexOK SlotsConsistent FiredAllInterrupted AtMostOnce NoSpuriousInterrupt FiredNeedsCancel
  ClosedNeverFires
PROPERTIES TouchOnlyArmed StoppedIsFinal RefusalMeansFull
CHECK_DEADLOCK FALSE
