CONSTANTS
  Procs = {1, 2}
  ParentKind = "custom"
  Forced = FALSE
  Atomic = FALSE
  OpSet <- CoreOps
  MaxOps = 2
  NoRecheck = TRUE
  CancelSkipsActive = FALSE
SPECIFICATION Spec
INVARIANTS TypeOK ReleaseLeavesNothing
CHECK_DEADLOCK FALSE
