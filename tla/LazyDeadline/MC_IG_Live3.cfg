CONSTANTS
  Procs = {1, 2, 3}
  Slots = 2
  MaxOps = 1
  Forced = FALSE
  CanClose = TRUE
  DisarmFloor = 0
  NoArmAfterFire = FALSE
  DisarmNoLock = FALSE
SPECIFICATION FairSpec
INVARIANTS TypeOK
PROPERTIES CancelFires CallsReturn
CHECK_DEADLOCK FALSE
