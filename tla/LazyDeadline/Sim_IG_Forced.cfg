CONSTANTS
  Procs = {1, 2, 3, 4, 5, 6, 7, 8, 9, 10}
  Slots = 8
  MaxOps = 3
  Forced = TRUE
  CanClose = TRUE
  DisarmFloor = 0
  NoArmAfterFire = FALSE
  DisarmNoLock = FALSE
INIT Init
NEXT Next
CHECK_DEADLOCK FALSE
