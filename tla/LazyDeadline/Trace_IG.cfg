CONSTANTS
  Procs = {1, 2, 3, 4, 5, 6, 7, 8, 9, 10}
  Slots = 8
  MaxOps = 1000
  Forced = FALSE
  CanClose = TRUE
  DisarmFloor = 0
  NoArmAfterFire = FALSE
  DisarmNoLock = FALSE
SPECIFICATION TraceSpec
INVARIANTS TypeOK MutexOK SlotsConsistent FiredAllInterrupted AtMostOnce NoSpuriousInterrupt FiredNeedsCancel
  ClosedNeverFires
CONSTRAINT HighWater
POSTCONDITION TraceAccepted
CHECK_DEADLOCK FALSE
