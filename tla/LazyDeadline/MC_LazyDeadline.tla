--------------------------- MODULE MC_LazyDeadline ---------------------------
EXTENDS LazyDeadline
AllOps == {"done", "err", "cancel", "deadline"}
CoreOps == {"done", "err", "cancel"}
=============================================================================
