---------------------------- MODULE InterruptGroup ----------------------------
(***************************************************************************)
(* X11DL (serves C11): internal/dnsclient.InterruptGroup -- one            *)
(* context.AfterFunc registration per lookup fan-out (resolver.lookup);     *)
(* every upstream exchange arms its connection in a slot for the duration   *)
(* of the exchange (Conn.ExchangeInterruptible) and the group interrupts    *)
(* all armed connections (SetDeadline(now)) when the lookup's context is    *)
(* cancelled: the winner returned, the request deadline passed, the client  *)
(* went away.                                                               *)
(*                                                                         *)
(* One action per critical section of interrupt_group.go:                   *)
(*   arm(conn):   mu.Lock; first free slot := conn; fired -> SetDeadline    *)
(*                (ArmLock, ArmTouch: SetDeadline is a call into the        *)
(*                connection, made while the mutex is held)                 *)
(*   disarm(s):   mu.Lock; conns[s] = nil                                   *)
(*   fire():      started in its own goroutine by the cancelled context     *)
(*                (CtxCancel); mu.Lock; fired = true; `for _, conn := range *)
(*                g.conns` ranges over a COPY of the array (FireLock takes  *)
(*                the snapshot), one SetDeadline per non-nil entry          *)
(*                (FireTouch), unlock                                       *)
(*   Close():     stop(): the registration is removed if fire has not been  *)
(*                started                                                   *)
(* Each goroutine p owns one connection (conn p).  Deviations: the          *)
(* per-operation fallback of an exchange that found the group full          *)
(* (Conn.ExchangeContext) is not modelled beyond `arm` reporting !ok.        *)
(* Forced = TRUE: the schedules a harness can force through gated           *)
(* connections (SetDeadline is the seam), see LazyDeadline.tla.             *)
(***************************************************************************)
EXTENDS Integers, Sequences, FiniteSets, TLC

CONSTANTS
  Procs,          \* exchange goroutines = connections
  Slots,          \* interruptGroupSlots
  MaxOps,         \* arm calls per goroutine
  Forced,
  CanClose,       \* Close() is part of the behaviours
  DisarmFloor,    \* 0.  Simulation only: disarm is called only while at least this many connections are armed
                  \*   (drives the random behaviours into the full table: refusals need Slots+1 armed goroutines)
  NoArmAfterFire, \* FALSE in the code.  TRUE: arm ignores `fired` (negative: FiredAllInterrupted must fail)
  DisarmNoLock    \* FALSE in the code.  TRUE: disarm does not take the mutex (negative: TouchOnlyArmed must fail)

VARIABLES
  ctxDone,   \* the lookup context is cancelled
  reg,       \* "armed" (AfterFunc registered) | "stopped" (Close detached it) | "spawned" (fire goroutine started,
             \*   waiting for the mutex) | "running" | "done"
  fired,     \* g.fired
  slots,     \* [1..Slots -> Procs \cup {0}]   g.conns
  snap,      \* fire's copy of the array
  fidx,      \* fire's loop position (0 = not in the loop)
  mu,        \* 0 free | p \in Procs | -1 the fire goroutine
  pc, ops,
  slotOf,    \* [Procs -> 0..Slots] slot handed out by arm (0: not armed)
  lastOk,    \* [Procs -> BOOLEAN] result of the last arm
  hits,      \* [Procs -> Nat] SetDeadline calls on p's connection since its last arm call
  closed     \* Close() returned

vars == <<ctxDone, reg, fired, slots, snap, fidx, mu, pc, ops, slotOf, lastOk, hits, closed>>

PCs == {"idle", "aLock", "aTouch", "dLock"}
Empty == [i \in 1..Slots |-> 0]

Init ==
  /\ ctxDone = FALSE
  /\ reg = "armed"
  /\ fired = FALSE
  /\ slots = Empty
  /\ snap = Empty
  /\ fidx = 0
  /\ mu = 0
  /\ pc = [p \in Procs |-> "idle"]
  /\ ops = [p \in Procs |-> 0]
  /\ slotOf = [p \in Procs |-> 0]
  /\ lastOk = [p \in Procs |-> FALSE]
  /\ hits = [p \in Procs |-> 0]
  /\ closed = FALSE

(* ---- forced-mode scheduling restrictions ------------------------------------ *)
Pending(w) == pc[w] \in {"aLock", "dLock"}
FirePending == reg = "spawned"
Urgent(w) == Pending(w) /\ mu = 0
FireUrgent == FirePending /\ mu = 0
Free(p) == Forced => (~FireUrgent /\ \A w \in Procs \ {p} : ~Urgent(w))
FireFree == Forced => \A w \in Procs : ~Urgent(w)
EnvFree == Forced => (~FireUrgent /\ \A w \in Procs : ~Urgent(w))
MayPend(p) == Forced => (~FirePending /\ \A w \in Procs \ {p} : ~Pending(w))

FreeSlots == {i \in 1..Slots : slots[i] = 0}
Min(S) == CHOOSE x \in S : \A y \in S : x <= y
NextOcc(s, from) == LET S == {i \in 1..Slots : i > from /\ s[i] # 0} IN IF S = {} THEN 0 ELSE Min(S)

(* ---- arm -------------------------------------------------------------------- *)
ArmCall(p) ==
  /\ pc[p] = "idle" /\ slotOf[p] = 0 /\ ops[p] < MaxOps
  /\ Free(p) /\ MayPend(p)
  /\ pc' = [pc EXCEPT ![p] = "aLock"]
  /\ ops' = [ops EXCEPT ![p] = @ + 1]
  /\ hits' = [hits EXCEPT ![p] = 0]
  /\ UNCHANGED <<ctxDone, reg, fired, slots, snap, fidx, mu, slotOf, lastOk, closed>>

ArmLock(p) ==
  /\ pc[p] = "aLock" /\ mu = 0 /\ Free(p)
  /\ IF FreeSlots = {}
       THEN /\ pc' = [pc EXCEPT ![p] = "idle"]
            /\ lastOk' = [lastOk EXCEPT ![p] = FALSE]
            /\ UNCHANGED <<slots, slotOf, mu>>
       ELSE LET i == Min(FreeSlots) IN
            /\ slots' = [slots EXCEPT ![i] = p]
            /\ slotOf' = [slotOf EXCEPT ![p] = i]
            /\ lastOk' = [lastOk EXCEPT ![p] = TRUE]
            /\ IF fired /\ ~NoArmAfterFire
                 THEN pc' = [pc EXCEPT ![p] = "aTouch"] /\ mu' = p
                 ELSE pc' = [pc EXCEPT ![p] = "idle"] /\ UNCHANGED mu
  /\ UNCHANGED <<ctxDone, reg, fired, snap, fidx, ops, hits, closed>>

(* conn.SetDeadline(time.Now()) inside arm, mutex held *)
ArmTouch(p) ==
  /\ pc[p] = "aTouch" /\ Free(p)
  /\ hits' = [hits EXCEPT ![p] = @ + 1]
  /\ pc' = [pc EXCEPT ![p] = "idle"]
  /\ mu' = 0
  /\ UNCHANGED <<ctxDone, reg, fired, slots, snap, fidx, ops, slotOf, lastOk, closed>>

(* ---- disarm ----------------------------------------------------------------- *)
DisarmCall(p) ==
  /\ pc[p] = "idle" /\ slotOf[p] # 0
  /\ Cardinality({q \in Procs : slotOf[q] # 0}) >= DisarmFloor
  /\ Free(p) /\ MayPend(p)
  /\ pc' = [pc EXCEPT ![p] = "dLock"]
  /\ UNCHANGED <<ctxDone, reg, fired, slots, snap, fidx, mu, ops, slotOf, lastOk, hits, closed>>

DisarmLock(p) ==
  /\ pc[p] = "dLock" /\ (DisarmNoLock \/ mu = 0) /\ Free(p)
  /\ slots' = [slots EXCEPT ![slotOf[p]] = 0]
  /\ slotOf' = [slotOf EXCEPT ![p] = 0]
  /\ pc' = [pc EXCEPT ![p] = "idle"]
  /\ UNCHANGED <<ctxDone, reg, fired, snap, fidx, mu, ops, lastOk, hits, closed>>

(* ---- the cancellation domain -------------------------------------------------- *)
(* cancel of the lookup context: a registered AfterFunc is started in its own goroutine *)
CtxCancel ==
  /\ ~ctxDone /\ EnvFree
  /\ Forced => \A w \in Procs : ~Pending(w)
  /\ ctxDone' = TRUE
  /\ reg' = IF reg = "armed" THEN "spawned" ELSE reg
  /\ UNCHANGED <<fired, slots, snap, fidx, mu, pc, ops, slotOf, lastOk, hits, closed>>

FireAdvance(s, from) ==
  LET n == NextOcc(s, from) IN
  IF n = 0 THEN fidx' = 0 /\ mu' = 0 /\ reg' = "done"
           ELSE fidx' = n /\ mu' = -1 /\ reg' = "running"

FireLock ==
  /\ reg = "spawned" /\ mu = 0 /\ FireFree
  /\ fired' = TRUE
  /\ snap' = slots
  /\ FireAdvance(slots, 0)
  /\ UNCHANGED <<ctxDone, slots, pc, ops, slotOf, lastOk, hits, closed>>

FireTouch ==
  /\ reg = "running" /\ EnvFree
  /\ hits' = [hits EXCEPT ![snap[fidx]] = @ + 1]
  /\ FireAdvance(snap, fidx)
  /\ UNCHANGED <<ctxDone, fired, slots, snap, pc, ops, slotOf, lastOk, closed>>

(* Close(): g.stop() *)
Close ==
  /\ CanClose /\ ~closed /\ EnvFree
  /\ closed' = TRUE
  /\ reg' = IF reg = "armed" THEN "stopped" ELSE reg
  /\ UNCHANGED <<ctxDone, fired, slots, snap, fidx, mu, pc, ops, slotOf, lastOk, hits>>

Next ==
  \/ \E p \in Procs : ArmCall(p) \/ ArmLock(p) \/ ArmTouch(p) \/ DisarmCall(p) \/ DisarmLock(p)
  \/ CtxCancel \/ FireLock \/ FireTouch \/ Close

Spec == Init /\ [][Next]_vars

FairSpec ==
  /\ Spec
  /\ \A p \in Procs : WF_vars(ArmLock(p) \/ ArmTouch(p) \/ DisarmLock(p))
  /\ WF_vars(FireLock) /\ WF_vars(FireTouch)

(* ------------------------------- properties ---------------------------------- *)
TypeOK ==
  /\ ctxDone \in BOOLEAN /\ fired \in BOOLEAN /\ closed \in BOOLEAN
  /\ reg \in {"armed", "stopped", "spawned", "running", "done"}
  /\ slots \in [1..Slots -> Procs \cup {0}]
  /\ snap \in [1..Slots -> Procs \cup {0}]
  /\ fidx \in 0..Slots
  /\ mu \in {0, -1} \cup Procs
  /\ pc \in [Procs -> PCs]
  /\ slotOf \in [Procs -> 0..Slots]
  /\ hits \in [Procs -> Nat]

MutexOK ==
  /\ \A p \in Procs : (mu = p) = (pc[p] = "aTouch")
  /\ (mu = -1) = (reg = "running")

(* a slot belongs to exactly the goroutine that was handed it *)
SlotsConsistent == \A p \in Procs, i \in 1..Slots : (slots[i] = p) = (slotOf[p] = i)

(* removal races are safe: only a connection that is armed at that moment is ever touched; in particular
   nothing touches a connection after its disarm returned *)
TouchOnlyArmed == [][\A p \in Procs : hits'[p] > hits[p] => slotOf[p] # 0]_vars

(* when the group has fired, every armed member has been interrupted -- by the fire if it was armed
   then, at once by arm if it came later *)
FiredAllInterrupted ==
  (reg = "done") => \A p \in Procs : (slotOf[p] # 0 /\ pc[p] = "idle") => hits[p] >= 1
(* ... and exactly once *)
AtMostOnce == \A p \in Procs : hits[p] <= 1
(* nothing is interrupted unless the context was cancelled *)
NoSpuriousInterrupt == (\E p \in Procs : hits[p] > 0) => (ctxDone /\ fired)
FiredNeedsCancel == fired => ctxDone
(* a registration detached by Close never fires: nothing is interrupted after Close *)
ClosedNeverFires == reg = "stopped" => (~fired /\ \A p \in Procs : hits[p] = 0)
StoppedIsFinal == [][reg = "stopped" => reg' = "stopped"]_vars
(* a full group refuses, it never evicts *)
RefusalMeansFull == [][\A p \in Procs : (pc[p] = "aLock" /\ pc'[p] = "idle" /\ ~lastOk'[p]) => FreeSlots = {}]_vars

(* liveness: a cancelled, still registered group fires to completion; calls return *)
CancelFires == (ctxDone /\ reg # "stopped") ~> (reg = "done")
CallsReturn == \A p \in Procs : (pc[p] # "idle") ~> (pc[p] = "idle")
=============================================================================
