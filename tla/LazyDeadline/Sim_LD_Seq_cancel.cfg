CONSTANTS
  Procs = {1, 2, 3}
  ParentKind = "cancel"
  Forced = TRUE
  Atomic = TRUE
  OpSet <- AllOps
  MaxOps = 3
  NoRecheck = FALSE
  CancelSkipsActive = FALSE
INIT Init
NEXT Next
CHECK_DEADLOCK FALSE
