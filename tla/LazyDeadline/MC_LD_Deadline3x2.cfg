CONSTANTS
  Procs = {1, 2, 3}
  ParentKind = "deadline"
  Forced = FALSE
  Atomic = FALSE
  OpSet <- CoreOps
  MaxOps = 2
  NoRecheck = FALSE
  CancelSkipsActive = FALSE
SPECIFICATION Spec
INVARIANTS TypeOK MutexOK ArmOnce OneRepresentation TerminalHolderIsBare ClosedHasCause KindHasCause
  ReleaseCloses ReleaseLeavesNothing
PROPERTIES ActiveStable StateLatched HolderErrLatched ClosedStaysClosed DeadlineFixed TerminalIsSticky ErrDecidedOnce
  NoPrematureClose ParentPreferred DeadlineReported
CHECK_DEADLOCK FALSE
