CONSTANTS
  Procs = {1, 2, 3, 4}
  ParentKind = "deadline"
  Forced = FALSE
  Atomic = FALSE
  OpSet <- AllOps
  MaxOps = 1000
  NoRecheck = FALSE
  CancelSkipsActive = FALSE
SPECIFICATION TraceSpec
INVARIANTS TypeOK MutexOK ArmOnce OneRepresentation TerminalHolderIsBare ClosedHasCause KindHasCause
  ReleaseCloses ReleaseLeavesNothing
CONSTRAINT HighWater
POSTCONDITION TraceAccepted
CHECK_DEADLOCK FALSE
