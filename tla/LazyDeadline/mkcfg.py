#!/usr/bin/env python3
"""Regenerates the TLC configs of LazyDeadline / InterruptGroup (run in this directory)."""
LD_INV = ("TypeOK MutexOK ArmOnce OneRepresentation TerminalHolderIsBare ClosedHasCause KindHasCause\n"
          "  ReleaseCloses ReleaseLeavesNothing")
LD_ACT = ("ActiveStable StateLatched HolderErrLatched ClosedStaysClosed DeadlineFixed TerminalIsSticky ErrDecidedOnce\n"
          "  NoPrematureClose ParentPreferred DeadlineReported")


def b(x):
    return "TRUE" if x else "FALSE"


def ld_consts(procs, parent, maxops, ops="CoreOps", forced=False, atomic=False, norecheck=False, skips=False):
    return ("CONSTANTS\n  Procs = %s\n  ParentKind = \"%s\"\n  Forced = %s\n  Atomic = %s\n  OpSet <- %s\n  MaxOps = %d\n"
            "  NoRecheck = %s\n  CancelSkipsActive = %s\n" % (procs, parent, b(forced), b(atomic), ops, maxops, b(norecheck), b(skips)))


def mc(name, c, inv, act, spec="Spec"):
    props = "PROPERTIES %s\n" % act if act else ""
    open("MC_%s.cfg" % name, "w").write(c + "SPECIFICATION %s\nINVARIANTS %s\n%sCHECK_DEADLOCK FALSE\n" % (spec, inv, props))


def sim(name, c):
    open("Sim_%s.cfg" % name, "w").write(c + "INIT Init\nNEXT Next\nCHECK_DEADLOCK FALSE\n")


def trace(name, c, inv, act):
    # state invariants only: the Reset line between two histories is not a step of the object
    open("Trace_%s.cfg" % name, "w").write(
        c + "SPECIFICATION TraceSpec\nINVARIANTS %s\nCONSTRAINT HighWater\nPOSTCONDITION TraceAccepted\n"
        "CHECK_DEADLOCK FALSE\n" % inv)


P2, P3, P4 = "{1, 2}", "{1, 2, 3}", "{1, 2, 3, 4}"
# ---- LazyDeadline -------------------------------------------------------------------------------
# every interleaving of the atomic steps, all four parent kinds
mc("LD_Custom2", ld_consts(P2, "custom", 2, "AllOps"), LD_INV, LD_ACT)
mc("LD_Custom3", ld_consts(P3, "custom", 1), LD_INV, LD_ACT)
mc("LD_Cancel3", ld_consts(P3, "cancel", 1), LD_INV, LD_ACT)
mc("LD_Deadline2", ld_consts(P2, "deadline", 2), LD_INV, LD_ACT)
mc("LD_None2", ld_consts(P2, "none", 2, "AllOps"), LD_INV, LD_ACT)
# thorough
mc("LD_Custom3x2", ld_consts(P3, "custom", 2), LD_INV, LD_ACT)
mc("LD_Cancel3x2", ld_consts(P3, "cancel", 2), LD_INV, LD_ACT)
mc("LD_Deadline3x2", ld_consts(P3, "deadline", 2), LD_INV, LD_ACT)
# the forced-schedule restriction satisfies the same properties (it is replayed on the code)
mc("LD_Forced2", ld_consts(P2, "custom", 2, forced=True), LD_INV, LD_ACT)
mc("LD_Forced3", ld_consts(P3, "custom", 2, forced=True), LD_INV, LD_ACT)
# liveness under fairness
mc("LD_Live2", ld_consts(P2, "custom", 2), "TypeOK", "CallsReturn CauseReachesHolder", spec="FairSpec")
mc("LD_Live2x1", ld_consts(P2, "custom", 1), "TypeOK", "CallsReturn CauseReachesHolder", spec="FairSpec")   # quick tier
mc("LD_LiveDeadline2", ld_consts(P2, "deadline", 2), "TypeOK", "CallsReturn CauseReachesHolder", spec="FairSpec")
# negative configs: the invariants are not vacuous
mc("LD_NegNoRecheck", ld_consts(P2, "custom", 2, norecheck=True), LD_INV, LD_ACT)
mc("LD_NegNoRecheckLeak", ld_consts(P2, "custom", 2, norecheck=True), "TypeOK ReleaseLeavesNothing", "")
mc("LD_NegCancelSkips", ld_consts(P2, "custom", 2, skips=True), LD_INV, LD_ACT)
# behaviours for the replay: forced schedules through the gated (custom) parent, sequential call orders
# on the three stdlib parents
sim("LD_Forced", ld_consts(P3, "custom", 3, "AllOps", forced=True))
for kind in ("none", "cancel", "deadline"):
    sim("LD_Seq_%s" % kind, ld_consts(P3, kind, 3, "AllOps", forced=True, atomic=True))
# recorded concurrent histories
for kind in ("custom", "cancel", "deadline"):
    trace("LD_%s" % kind, ld_consts(P4, kind, 1000, "AllOps"), LD_INV, LD_ACT)

# ---- InterruptGroup -----------------------------------------------------------------------------
IG_INV = ("TypeOK MutexOK SlotsConsistent FiredAllInterrupted AtMostOnce NoSpuriousInterrupt FiredNeedsCancel\n"
          "  ClosedNeverFires")
IG_ACT = "TouchOnlyArmed StoppedIsFinal RefusalMeansFull"


def ig_consts(procs, slots, maxops, forced=False, canclose=True, noarm=False, nolock=False, floor=0):
    return ("CONSTANTS\n  Procs = %s\n  Slots = %d\n  MaxOps = %d\n  Forced = %s\n  CanClose = %s\n  DisarmFloor = %d\n"
            "  NoArmAfterFire = %s\n  DisarmNoLock = %s\n" % (procs, slots, maxops, b(forced), b(canclose), floor, b(noarm), b(nolock)))


mc("IG_3x2", ig_consts(P3, 2, 2), IG_INV, IG_ACT)          # three goroutines, two slots: refusal + re-arm
mc("IG_3x3", ig_consts(P3, 3, 2), IG_INV, IG_ACT)
mc("IG_4x2", ig_consts(P4, 2, 2), IG_INV, IG_ACT)          # thorough
mc("IG_Forced3", ig_consts(P3, 2, 2, forced=True), IG_INV, IG_ACT)
mc("IG_Live3", ig_consts(P3, 2, 1), "TypeOK", "CancelFires CallsReturn", spec="FairSpec")
mc("IG_NegNoArmAfterFire", ig_consts(P2, 2, 2, noarm=True), IG_INV, IG_ACT)
mc("IG_NegDisarmNoLock", ig_consts(P2, 2, 2, nolock=True), IG_INV, IG_ACT)
sim("IG_Forced", ig_consts("{1, 2, 3, 4, 5, 6, 7, 8, 9, 10}", 8, 3, forced=True))
sim("IG_Full", ig_consts("{1, 2, 3, 4, 5, 6, 7, 8, 9, 10}", 8, 3, forced=True, floor=8))
trace("IG", ig_consts("{1, 2, 3, 4, 5, 6, 7, 8, 9, 10}", 8, 1000), IG_INV, IG_ACT)
