------------------------- MODULE Trace_LazyDeadline -------------------------
(***************************************************************************)
(* Validation of concurrent histories recorded from a real                 *)
(* contextutil.LazyDeadline (harness/x11dl/lazydl_stress_test.go) against  *)
(* LazyDeadline.tla.  Goroutines call Done / Err / Cancel / Deadline       *)
(* freely; every call logs an invocation line before it starts and a       *)
(* response line after it returned, stamped from one harness-side atomic    *)
(* sequence, so the line order respects real time.  The atomic steps of a   *)
(* call, the timer, the propagation goroutine and the clock are the silent  *)
(* steps TLC interleaves between lines: acceptance means the history is     *)
(* linearizable with respect to the model of the individual atomics.        *)
(* Environment lines: `lo` (stamp taken, then the clock read before the     *)
(* deadline: now = "before" at that line), `hi` (clock read at/after the    *)
(* deadline, then the stamp: now = "after"), `pcInv`/`pcRes` around the     *)
(* parent's cancel(), `end` with the quiescent projection, `Reset` between  *)
(* histories.  A Done() response carries the identity of the channel        *)
(* (0 = the closed sentinel, k = k-th holder) and whether it was seen       *)
(* closed after the return (it may have closed in between, never reopen).   *)
(* Accepted when some path consumes every line: high-water mark in TLC      *)
(* register 1 (-workers 1).                                                 *)
(***************************************************************************)
EXTENDS MC_LazyDeadline, Json, IOUtils

TraceLog == ndJsonDeserialize(IOEnv.TRACE_FILE)

VARIABLES l, pcw
tvars == <<vars, l, pcw>>

TraceInit == Init /\ l = 1 /\ pcw = 0 /\ TLCSet(1, 0)
Line == TraceLog[l]
IsEv(e) == l <= Len(TraceLog) /\ Line.ev = e /\ l' = l + 1

TInv ==
  /\ IsEv("inv")
  /\ LET p == Line.p IN
     \/ Line.op = "done" /\ DoneCall(p)
     \/ Line.op = "err" /\ ErrCall(p)
     \/ Line.op = "cancel" /\ CancelCall(p)
     \/ Line.op = "deadline" /\ DeadlineCall(p)
  /\ UNCHANGED pcw

ChanClosed(h) == IF h = 0 THEN TRUE ELSE h \in DOMAIN holders /\ holders[h].err # "nil"

TRes ==
  /\ IsEv("res")
  /\ LET p == Line.p  r == lastRes[p] IN
     /\ pc[p] = "idle" /\ opn[p] = Line.op /\ r.k = Line.op
     /\ Line.op = "done" => /\ r.h = Line.h
                            /\ Line.c => ChanClosed(r.h)
                            /\ ~Line.c => ~r.c
     /\ Line.op = "err" => r.e = Line.e
     /\ Line.op = "deadline" => r.e = Line.e
  /\ UNCHANGED <<vars, pcw>>

Silent ==
  /\ l <= Len(TraceLog)
  /\ \/ \E p \in Procs :
          \/ DoneEnter(p) \/ DoneLock(p) \/ DoneMat(p)
          \/ ErrEnter(p) \/ ErrParent(p) \/ ErrLock(p) \/ ErrMat(p)
          \/ CancelLock(p) \/ CancelParent(p) \/ CancelMat(p)
          \/ DeadlineEnter(p)
     \/ Tick \/ ParentExpire
     \/ (pcw = 1 /\ ParentCancel)
     \/ \E i \in 1..3 : TimerFire(i) \/ Propagate(i)
  /\ UNCHANGED <<l, pcw>>

TLo == IsEv("lo") /\ now = "before" /\ UNCHANGED <<vars, pcw>>
THi == IsEv("hi") /\ now = "after" /\ UNCHANGED <<vars, pcw>>
TPcInv == IsEv("pcInv") /\ pcw = 0 /\ pcw' = 1 /\ UNCHANGED vars
TPcRes == IsEv("pcRes") /\ pcw = 1 /\ parentErr # "nil" /\ pcw' = 2 /\ UNCHANGED vars

TEnd ==
  /\ IsEv("end")
  /\ \A p \in Procs : pc[p] = "idle"
  /\ state = Line.state
  /\ Len(holders) = Line.nh
  /\ (active # 0) = (Line.nh > 0)
  /\ active # 0 => holders[active].err = Line.herr
  /\ UNCHANGED <<vars, pcw>>

TReset ==
  /\ IsEv("Reset")
  /\ pcw' = 0
  /\ now' = "before"
  /\ dl' = dl
  /\ parentErr' = "nil"
  /\ state' = "live"
  /\ active' = 0
  /\ holders' = <<>>
  /\ mu' = 0
  /\ pc' = [p \in Procs |-> "idle"]
  /\ opn' = [p \in Procs |-> "none"]
  /\ ops' = [p \in Procs |-> 0]
  /\ lastRes' = [p \in Procs |-> NoRes]
  /\ floorC' = [p \in Procs |-> FALSE]
  /\ obsClosed' = FALSE
  /\ errSeen' = "nil"
  /\ released' = FALSE
  /\ cancelInv' = FALSE

TraceNext == TReset \/ TInv \/ TRes \/ TLo \/ THi \/ TPcInv \/ TPcRes \/ TEnd \/ Silent
TraceSpec == TraceInit /\ [][TraceNext]_tvars

HighWater == TLCSet(1, IF l > TLCGet(1) THEN l ELSE TLCGet(1))
TraceAccepted == TLCGet(1) > Len(TraceLog)
=============================================================================
