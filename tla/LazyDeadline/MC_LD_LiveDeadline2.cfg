CONSTANTS
  Procs = {1, 2}
  ParentKind = "deadline"
  Forced = FALSE
  Atomic = FALSE
  OpSet <- CoreOps
  MaxOps = 2
  NoRecheck = FALSE
  CancelSkipsActive = FALSE
SPECIFICATION FairSpec
INVARIANTS TypeOK
PROPERTIES CallsReturn CauseReachesHolder
CHECK_DEADLOCK FALSE
