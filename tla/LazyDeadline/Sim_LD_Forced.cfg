CONSTANTS
  Procs = {1, 2, 3}
  ParentKind = "custom"
  Forced = TRUE
  Atomic = FALSE
  OpSet <- AllOps
  MaxOps = 3
  NoRecheck = FALSE
  CancelSkipsActive = FALSE
INIT Init
NEXT Next
CHECK_DEADLOCK FALSE
