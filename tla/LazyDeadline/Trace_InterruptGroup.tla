------------------------ MODULE Trace_InterruptGroup ------------------------
(***************************************************************************)
(* Validation of concurrent histories recorded from a real                 *)
(* dnsclient.InterruptGroup (harness/x11dl/intgroup_test.go, TestIGStress)  *)
(* against InterruptGroup.tla.  arm / disarm log an invocation and a        *)
(* response line; every SetDeadline the group performs logs a `touch` line  *)
(* from inside the call, i.e. under the group mutex, so touch lines are     *)
(* the FireTouch / ArmTouch steps themselves; cancelInv/cancelRes and       *)
(* closeInv/closeRes bracket the context's cancel() and Close(); `end`      *)
(* carries the quiescent `fired`.  Lock acquisitions are the silent steps.  *)
(* Histories are concatenated with Reset lines; accepted when some path     *)
(* consumes every line (high-water mark in TLC register 1, -workers 1).     *)
(***************************************************************************)
EXTENDS MC_InterruptGroup, Json, IOUtils

TraceLog == ndJsonDeserialize(IOEnv.TRACE_FILE)

VARIABLES l, cw, clw
tvars == <<vars, l, cw, clw>>

TraceInit == Init /\ l = 1 /\ cw = 0 /\ clw = 0 /\ TLCSet(1, 0)
Line == TraceLog[l]
IsEv(e) == l <= Len(TraceLog) /\ Line.ev = e /\ l' = l + 1

TInv ==
  /\ IsEv("inv")
  /\ \/ Line.op = "arm" /\ ArmCall(Line.p)
     \/ Line.op = "disarm" /\ DisarmCall(Line.p)
  /\ UNCHANGED <<cw, clw>>

TRes ==
  /\ IsEv("res")
  /\ LET p == Line.p IN
     /\ pc[p] = "idle"
     /\ Line.op = "arm" => (lastOk[p] = Line.ok /\ (Line.ok => slotOf[p] = Line.slot))
     /\ Line.op = "disarm" => slotOf[p] = 0
  /\ UNCHANGED <<vars, cw, clw>>

TTouch ==
  /\ IsEv("touch")
  /\ IF Line.arm THEN ArmTouch(Line.c)
                 ELSE reg = "running" /\ snap[fidx] = Line.c /\ FireTouch
  /\ UNCHANGED <<cw, clw>>

Silent ==
  /\ l <= Len(TraceLog)
  /\ \/ \E p \in Procs : ArmLock(p) \/ DisarmLock(p)
     \/ FireLock
     \/ (cw = 1 /\ CtxCancel)
     \/ (clw = 1 /\ Close)
  /\ UNCHANGED <<l, cw, clw>>

TCancelInv == IsEv("cancelInv") /\ cw = 0 /\ cw' = 1 /\ UNCHANGED <<vars, clw>>
TCancelRes == IsEv("cancelRes") /\ cw = 1 /\ ctxDone /\ cw' = 2 /\ UNCHANGED <<vars, clw>>
TCloseInv == IsEv("closeInv") /\ clw = 0 /\ clw' = 1 /\ UNCHANGED <<vars, cw>>
TCloseRes == IsEv("closeRes") /\ clw = 1 /\ closed /\ clw' = 2 /\ UNCHANGED <<vars, cw>>

TEnd ==
  /\ IsEv("end")
  /\ \A p \in Procs : pc[p] = "idle"
  /\ reg \in {"armed", "stopped", "done"}
  /\ fired = Line.fired
  /\ UNCHANGED <<vars, cw, clw>>

TReset ==
  /\ IsEv("Reset")
  /\ cw' = 0 /\ clw' = 0
  /\ ctxDone' = FALSE
  /\ reg' = "armed"
  /\ fired' = FALSE
  /\ slots' = Empty
  /\ snap' = Empty
  /\ fidx' = 0
  /\ mu' = 0
  /\ pc' = [p \in Procs |-> "idle"]
  /\ ops' = [p \in Procs |-> 0]
  /\ slotOf' = [p \in Procs |-> 0]
  /\ lastOk' = [p \in Procs |-> FALSE]
  /\ hits' = [p \in Procs |-> 0]
  /\ closed' = FALSE

TraceNext == TReset \/ TInv \/ TRes \/ TTouch \/ TCancelInv \/ TCancelRes \/ TCloseInv \/ TCloseRes \/ TEnd \/ Silent
TraceSpec == TraceInit /\ [][TraceNext]_tvars

HighWater == TLCSet(1, IF l > TLCGet(1) THEN l ELSE TLCGet(1))
TraceAccepted == TLCGet(1) > Len(TraceLog)
=============================================================================
