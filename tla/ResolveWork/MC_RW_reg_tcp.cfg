CONSTANTS
  N = 2
  MaxFan = 2
  KindSet <- KindsFail
  GenFans <- Fans01
  Budgets <- BudgetsOne
  MaxDepth = 3
  MaxQ = 4
  MaxChase = 3
  MaxDname = 2
  TcpNotDebited = TRUE
  ShadowRejects = FALSE
  LeakBudgetFailure = FALSE
  LoopCapOff = FALSE
  Emit = FALSE
SPECIFICATION Spec
INVARIANTS TypeOK WithinBudget OverBudgetIsPrivate ShadowEqualsOff EnforceIsPrefix LocalBelowW
PROPERTIES Terminates MeasureDecreases
CHECK_DEADLOCK FALSE
