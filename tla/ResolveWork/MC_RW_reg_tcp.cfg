CONSTANTS
  N = 2
  MaxFan = 2
  KindSet <- KindsFail
  GenFans <- Fans01
  Budgets <- BudgetsOne
  MaxDepth = 3
  MaxQ = 32
  MaxChase = 10
  MaxDname = 10
  TcpNotDebited = TRUE
  ShadowRejects = FALSE
  LeakBudgetFailure = FALSE
  LoopCapOff = FALSE
  V6Set <- V6Off
  DetachedFresh = FALSE
  Emit = FALSE
SPECIFICATION Spec
INVARIANTS TypeOK WithinBudget OverBudgetIsPrivate ShadowEqualsOff EnforceIsPrefix LocalBelowW
PROPERTIES Terminates MeasureDecreases
CHECK_DEADLOCK FALSE
