------------------------------ MODULE MC_RW ------------------------------
EXTENDS ResolveWork

KindsAll   == {"A", "CNAME", "DNAME", "NS", "LAME", "REFUSE", "SELFREF", "REFGEN"}
KindsCycle == {"A", "CNAME", "DNAME", "NS"}
KindsFail  == {"A", "CNAME", "NS", "LAME", "REFGEN"}
Fans01     == {0, 1}
Fans02     == {0, 2}
BudgetsQ   == {<<1, 1>>, <<4, 2>>, <<9, 3>>}
BudgetsT   == {<<1, 1>>, <<2, 1>>, <<4, 2>>, <<6, 1>>, <<9, 3>>, <<40, 12>>}
BudgetsOne == {<<6, 2>>}
=============================================================================
