------------------------------ MODULE MC_RW ------------------------------
EXTENDS ResolveWork

KindsAll   == {"A", "CNAME", "DNAME", "NS", "LAME", "REFUSE", "SELFREF", "REFGEN"}
KindsCycle == {"A", "CNAME", "DNAME", "NS"}
KindsCyc3  == {"A", "CNAME", "NS"}
KindsFail  == {"A", "CNAME", "NS", "LAME", "REFGEN"}
\* the NXNS family: glue-less multi-NS referrals, dead servers, aliases (the IPv6 enrichment configurations)
KindsNX    == {"A", "CNAME", "NS", "LAME"}
KindsNS    == {"A", "NS", "LAME"}
BudgetsV   == {<<2, 1>>, <<9, 3>>}
V6Off      == {FALSE}
V6On       == {TRUE}
V6Both     == {FALSE, TRUE}
Fans01     == {0, 1}
Fans02     == {0, 2}
BudgetsQ   == {<<1, 1>>, <<4, 2>>, <<9, 3>>}
BudgetsT   == {<<1, 1>>, <<2, 1>>, <<4, 2>>, <<6, 1>>, <<9, 3>>, <<40, 12>>}
BudgetsOne == {<<6, 2>>}
\* debugging aid: one fixed topology (edit freely; not used by the check)
TopoOne == <<[kind |-> "NS", tgt |-> {1, 3}, fan |-> 0], [kind |-> "A", tgt |-> {}, fan |-> 0], [kind |-> "NS", tgt |-> {2, 3}, fan |-> 0]>>
InitOne == topo = TopoOne /\ budget = <<40, 12>> /\ v6 = TRUE /\ run = [m \in Modes |-> R0]
SpecOne == InitOne /\ [][Next]_vars /\ WF_vars(Next)
NotDone == ~AllDone
=============================================================================
