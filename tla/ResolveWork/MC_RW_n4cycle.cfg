CONSTANTS
  N = 4
  MaxFan = 3
  KindSet <- KindsCycle
  GenFans <- Fans01
  Budgets <- BudgetsQ
  MaxDepth = 3
  MaxQ = 4
  MaxChase = 3
  MaxDname = 2
  TcpNotDebited = FALSE
  ShadowRejects = FALSE
  LeakBudgetFailure = FALSE
  LoopCapOff = FALSE
  Emit = FALSE
SPECIFICATION Spec
INVARIANTS TypeOK WithinBudget OverBudgetIsPrivate ShadowEqualsOff EnforceIsPrefix LocalBelowW
PROPERTIES Terminates MeasureDecreases
CHECK_DEADLOCK FALSE
