CONSTANTS
  N = 2
  MaxFan = 2
  KindSet <- KindsFail
  GenFans <- Fans01
  Budgets <- BudgetsOne
  MaxDepth = 3
  MaxQ = 32
  MaxChase = 10
  MaxDname = 10
  TcpNotDebited = FALSE
  ShadowRejects = FALSE
  LeakBudgetFailure = FALSE
  LoopCapOff = FALSE
  V6Set <- V6On
  DetachedFresh = TRUE
  Emit = FALSE
SPECIFICATION Spec
INVARIANTS TypeOK OneLedgerPerTree
CHECK_DEADLOCK FALSE
