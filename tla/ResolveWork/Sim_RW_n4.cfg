CONSTANTS
  N = 4
  MaxFan = 3
  KindSet <- KindsAll
  GenFans <- Fans02
  Budgets <- BudgetsQ
  MaxDepth = 3
  MaxQ = 32
  MaxChase = 10
  MaxDname = 10
  TcpNotDebited = FALSE
  ShadowRejects = FALSE
  LeakBudgetFailure = FALSE
  LoopCapOff = FALSE
  Emit = TRUE
SPECIFICATION Spec
INVARIANTS TypeOK WithinBudget OverBudgetIsPrivate ShadowEqualsOff EnforceIsPrefix LocalBelowW
PROPERTIES MeasureDecreases
CHECK_DEADLOCK FALSE
