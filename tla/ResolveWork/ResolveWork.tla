--------------------------- MODULE ResolveWork ---------------------------
(***************************************************************************)
(* C12, pipeline tier.  An abstract sdns resolver over an ADVERSARIAL       *)
(* dependency graph chosen by TLC (every Init choice = one topology).       *)
(*                                                                         *)
(* Nodes are (name,type) goals x.d.z<i>.test./A.  Node kinds (= edge kinds) *)
(*   A        terminal answer                                               *)
(*   CNAME j  alias into zone j       (cache.additionalAnswer chase)        *)
(*   DNAME j  DNAME into zone j       (resolver.checkDname)                 *)
(*   NS J     zone z<i> is delegated GLUELESS to the goals J (fan-out<=3):  *)
(*            its servers' addresses are themselves goals (lookupV4Nss)     *)
(*   LAME     delegated to a server that never answers (retry->TCP ladder)  *)
(*   REFUSE   delegated to a server that refuses                            *)
(*   SELFREF  server refers every question back to its own zone             *)
(*   REFGEN f ever-deeper referral generator, f glueless NS names per level *)
(* Cycles of any length <= N arise from CNAME/DNAME/NS edges.               *)
(*                                                                         *)
(* The resolver is DETERMINISTIC given the topology, so it is written as a  *)
(* function Step(r) on a run record; the three firewall modes run in        *)
(* lockstep in one behaviour, which turns ShadowEqualsOff (a relation       *)
(* between two runs) into a state invariant.                                *)
(*                                                                         *)
(* Code caps modelled as guards: MaxQ = maxQueryerRecursion (32), MaxChase  *)
(* = maxCnameChaseDepth (10), MaxDname = maxDnameDepth (10), 3 attempts per *)
(* (question, endpoint, transport) = ResolutionAttemptGuard, checkLoop      *)
(* count > 1; MaxDepth stands for cfg.Maxdepth (30) and is scaled down in   *)
(* the configurations (it only bounds the referral generator).              *)
(* Every transport attempt and every sub-query debits the ledger FIRST      *)
(* (Resolver.exchange, pipelineQueryer.Query).                              *)
(*                                                                         *)
(* IPv6 access (v6, chosen at Init from V6Set) adds DETACHED HELPER JOBS:     *)
(* every referral that is processed for the first time (processDelegation,  *)
(* delegation-cache miss) retains the tree's ledger and starts a job that,  *)
(* after the client has its reply, looks up the AAAA address of every NS     *)
(* host of that referral (lookupV6Nss -> lookupNSAddrV6 -> Queryer.Query).   *)
(* The jobs debit the SAME ledger (best effort: a rejected debit stops the   *)
(* job, latches nothing and cannot touch the reply).  A run is finished      *)
(* (fin) only when the reply is out AND every job has returned; all budget   *)
(* properties are stated on the finished tree.  Job hosts: 0 = ns.test.,     *)
(* N+n = the in-zone NS name of zone n (with A glue), j in 1..N = the        *)
(* glue-less NS name that is goal j.                                        *)
(*                                                                         *)
(* Deliberate deviations: referral depth is only counted for the generator; *)
(* an AAAA goal walks like the A goal of the same name and shares its        *)
(* attempt counters; the in-zone NS name of a zone costs one packet at the   *)
(* zone's server (the retry ladder for a dead one, two for the generator);   *)
(* the answer cache inside one request tree is not modelled (the code's     *)
(* inner answers are stored only after the chase completed); qname          *)
(* minimisation only changes packet counts and is left to the replay.       *)
(***************************************************************************)
EXTENDS Naturals, Sequences, FiniteSets, TLC, Json

CONSTANTS N,            \* number of goals
          MaxFan,       \* glueless NS fan-out
          KindSet,      \* node kinds allowed in this configuration
          GenFans,      \* set of generator fan-outs
          Budgets,      \* set of <<MaxOutbound, MaxInternal>>
          MaxDepth, MaxQ, MaxChase, MaxDname,
          \* model mutants (regression configurations must FAIL with these on)
          TcpNotDebited, ShadowRejects, LeakBudgetFailure, LoopCapOff,
          V6Set,        \* values of the ipv6access configuration dimension (subset of BOOLEAN)
          DetachedFresh,\* mutant: the detached job's context lost the tree's ledger, every lookup it makes
                        \* is an ownerless request that gets a brand-new ledger with the full budget
          Emit          \* print one JSON line per finished behaviour

Nodes == 1..N
Modes == {"off", "shadow", "enforce"}
MaxAttempts == 3
MaxGenFan == 2

VARIABLES topo, budget, v6, run

vars == <<topo, budget, v6, run>>

(***************************************************************************)
(* Topologies                                                              *)
(***************************************************************************)
NodeOpts ==
  (IF "A" \in KindSet THEN {[kind |-> "A", tgt |-> {}, fan |-> 0]} ELSE {})
  \cup (IF "CNAME" \in KindSet THEN {[kind |-> "CNAME", tgt |-> {j}, fan |-> 0] : j \in Nodes} ELSE {})
  \cup (IF "DNAME" \in KindSet THEN {[kind |-> "DNAME", tgt |-> {j}, fan |-> 0] : j \in Nodes} ELSE {})
  \cup (IF "NS" \in KindSet
        THEN {[kind |-> "NS", tgt |-> J, fan |-> 0] : J \in {S \in SUBSET Nodes : S # {} /\ Cardinality(S) <= MaxFan}}
        ELSE {})
  \cup (IF "LAME" \in KindSet THEN {[kind |-> "LAME", tgt |-> {}, fan |-> 0]} ELSE {})
  \cup (IF "REFUSE" \in KindSet THEN {[kind |-> "REFUSE", tgt |-> {}, fan |-> 0]} ELSE {})
  \cup (IF "SELFREF" \in KindSet THEN {[kind |-> "SELFREF", tgt |-> {}, fan |-> 0]} ELSE {})
  \cup (IF "REFGEN" \in KindSet THEN {[kind |-> "REFGEN", tgt |-> {}, fan |-> f] : f \in GenFans} ELSE {})

\* nodes reachable from the client's goal (node 1)
RECURSIVE ReachFrom(_, _, _)
ReachFrom(t, seen, frontier) ==
  IF frontier = {} THEN seen
  ELSE LET nxt == (UNION {t[n].tgt : n \in frontier}) \ seen
       IN ReachFrom(t, seen \cup nxt, nxt)
Reach(t) == ReachFrom(t, {1}, {1})

\* canonical: every node is reachable (smaller graphs are covered by smaller N)
Topologies == {t \in [Nodes -> NodeOpts] : Reach(t) = Nodes}

(***************************************************************************)
(* Run record                                                              *)
(***************************************************************************)
NoFrame == [node |-> 0]

Frame(n, via, qd, cd, dd, nsl) ==
  [node |-> n, via |-> via, ph |-> 0, todo |-> {}, found |-> FALSE,
   qd |-> qd, cd |-> cd, dd |-> dd, md |-> MaxDepth, nsl |-> nsl,
   sub |-> 0, sp |-> 0, pend |-> 0, ret |-> "none", cret |-> "none"]

\* out/int: the tree's ledger.  pk/sq: packets really sent / sub-queries really started by the tree
\* (dpk/dsq: those of them after the reply).  fout/fint: the stray ledger of the DetachedFresh mutant.
\* jobs: pending detached jobs (head = the running one), each the NS hosts it still has to look up.
R0 ==
  [stack |-> <<Frame(1, "client", 0, 0, 0, <<>>)>>,
   out |-> 0, int |-> 0, pk |-> 0, sq |-> 0, dpk |-> 0, dsq |-> 0, fout |-> 0, fint |-> 0,
   jobs |-> <<>>, starved |-> FALSE, fin |-> FALSE, latched |-> FALSE,
   attT |-> [n \in Nodes |-> 0], attL |-> [n \in Nodes |-> 0],
   knowTest |-> FALSE, knowSink |-> FALSE, knowZone |-> {},
   reply |-> "none", recorded |-> FALSE, hops |-> 0, done |-> FALSE]

Top(r) == r.stack[Len(r.stack)]
SetTop(r, f) == [r EXCEPT !.stack[Len(r.stack)] = f]

Count(seq, x) == Cardinality({i \in 1..Len(seq) : seq[i] = x})
MinOf(S) == CHOOSE x \in S : \A y \in S : x <= y
RECURSIVE SeqOf(_)
SeqOf(S) == IF S = {} THEN <<>> ELSE <<MinOf(S)>> \o SeqOf(S \ {MinOf(S)})

\* the client has its reply: whatever still runs is a retained helper job
Det(r) == r.reply # "none"
\* the mutant's ownerless lookups book on a stray ledger
Fresh(r) == DetachedFresh /\ Det(r)

(***************************************************************************)
(* The ledger: debit first.  Debit(r,m,kind) = <<accepted, r'>>.            *)
(* off: no ledger.  shadow: count only.  enforce: CAS never passes the cap, *)
(* the first rejection is latched and terminal for the whole request tree.  *)
(***************************************************************************)
Cap(kind) == IF kind = "out" THEN budget[1] ELSE budget[2]
Used(r, kind) == IF Fresh(r) THEN (IF kind = "out" THEN r.fout ELSE r.fint)
                 ELSE (IF kind = "out" THEN r.out ELSE r.int)
Bump(r, kind) == IF Fresh(r) THEN (IF kind = "out" THEN [r EXCEPT !.fout = @ + 1] ELSE [r EXCEPT !.fint = @ + 1])
                 ELSE (IF kind = "out" THEN [r EXCEPT !.out = @ + 1] ELSE [r EXCEPT !.int = @ + 1])

Rejecting(m) == m = "enforce" \/ (ShadowRejects /\ m = "shadow")

Accepts(r, m, kind) == ~Rejecting(m) \/ Used(r, kind) < Cap(kind)

Debited(r, m, kind) == IF m = "off" THEN r ELSE Bump(r, kind)

\* the request tree dies: SERVFAIL + EDE, request-local.  A detached job debits best effort
\* (WithBestEffortRecursionWork): the running job returns, nothing is latched, the reply is long gone
Rejected(r) ==
  IF Det(r)
  THEN [r EXCEPT !.stack = <<>>, !.jobs = Tail(@), !.starved = TRUE]
  ELSE [r EXCEPT !.stack = <<>>, !.latched = TRUE, !.reply = "servfail_ede",
                 !.recorded = LeakBudgetFailure, !.done = TRUE]

\* one upstream packet (a transport attempt): debit, then send
Send(r, m, tcp) ==
  LET d == IF tcp /\ TcpNotDebited THEN r ELSE Debited(r, m, "out")
  IN [d EXCEPT !.pk = @ + 1, !.dpk = IF Det(r) THEN @ + 1 ELSE @]
\* one internal sub-query really started
Started(r) == [r EXCEPT !.sq = @ + 1, !.dsq = IF Det(r) THEN @ + 1 ELSE @]
\* processDelegation on a delegation-cache miss with ipv6access: retain the ledger, start the enrichment job
Spawn(r, hosts) == IF v6 /\ hosts # <<>> THEN [r EXCEPT !.jobs = Append(@, hosts)] ELSE r
SendOK(r, m, tcp) == (tcp /\ TcpNotDebited) \/ Accepts(r, m, "out")

(***************************************************************************)
(* One step of the resolver on the top frame                               *)
(***************************************************************************)
Ret(r, f, code) == SetTop(r, [f EXCEPT !.ret = code])

Push(r, m, f, child, nextPh) ==
  \* pipelineQueryer.Query: recursion bound, THEN debit, then run the sub-pipeline
  LET parent == [f EXCEPT !.ph = nextPh, !.pend = 0]
      r1 == Started(Debited(r, m, "int"))
  IN [r1 EXCEPT !.stack = Append(SubSeq(r.stack, 1, Len(r.stack) - 1) \o <<parent>>, child)]

StepFrame(r, m) ==
  LET f == Top(r)
      n == f.node
      k == topo[n].kind
  IN
  CASE f.ret # "none" ->
         \* pop: hand the result to the parent, or finish the client query
         IF Len(r.stack) = 1 /\ Det(r)
         THEN [r EXCEPT !.stack = <<>>]   \* enrichment: the addresses join the delegation, nothing else happens
         ELSE IF Len(r.stack) = 1
         THEN [r EXCEPT !.stack = <<>>, !.done = TRUE,
                        !.reply = IF f.ret \in {"ok", "partial"} THEN "answer" ELSE "servfail",
                        !.recorded = (f.ret = "gen")]
         ELSE LET p == r.stack[Len(r.stack) - 1]
              IN [r EXCEPT !.stack = Append(SubSeq(r.stack, 1, Len(r.stack) - 2), [p EXCEPT !.cret = f.ret])]
    [] f.ph = 0 ->
         \* root: the referral to test. is learned once (delegation cache)
         IF r.knowTest THEN SetTop(r, [f EXCEPT !.ph = 1])
         ELSE IF ~SendOK(r, m, FALSE) THEN Rejected(r)
         ELSE SetTop(Spawn([Send(r, m, FALSE) EXCEPT !.knowTest = TRUE], <<0>>), [f EXCEPT !.ph = 1])
    [] f.ph = 1 ->
         \* test.: referral to z<n>; glueless zones need their NS addresses first
         IF n \in r.knowZone THEN SetTop(r, [f EXCEPT !.ph = 2])
         ELSE IF r.attT[n] >= MaxAttempts THEN Ret(r, f, "loc")
         ELSE IF ~SendOK(r, m, FALSE) THEN Rejected(r)
         ELSE LET r1 == [Send(r, m, FALSE) EXCEPT !.attT[n] = @ + 1]
              IN IF k = "NS"
                 THEN SetTop(r1, [f EXCEPT !.ph = 11, !.todo = topo[n].tgt, !.found = FALSE])
                 ELSE SetTop(Spawn([r1 EXCEPT !.knowZone = @ \cup {n}], <<N + n>>), [f EXCEPT !.ph = 2])
    [] f.ph = 11 ->
         \* lookupV4Nss: every NS host in turn (checkLoop, then an internal A lookup)
         IF f.cret # "none"
         THEN LET stop == f.cret = "rec"   \* ErrMaxRecursion is returned, not skipped
              IN IF stop THEN Ret(r, [f EXCEPT !.cret = "none"], "rec")
                 ELSE SetTop(r, [f EXCEPT !.cret = "none", !.found = (f.found \/ f.cret = "ok")])
         ELSE IF f.todo = {}
         THEN IF f.found THEN SetTop(Spawn([r EXCEPT !.knowZone = @ \cup {n}], SeqOf(topo[n].tgt)), [f EXCEPT !.ph = 2])
              ELSE Ret(r, f, "gen")                     \* errNoReachableAuth
         ELSE LET j == MinOf(f.todo)
                  f1 == [f EXCEPT !.todo = @ \ {j}]
              IN IF ~LoopCapOff /\ Count(f.nsl, j) > 1 THEN SetTop(r, f1)   \* checkLoop: loopCount > 1
                 ELSE IF f.qd >= MaxQ THEN Ret(r, f1, "rec")              \* ErrMaxRecursion
                 ELSE IF ~Accepts(r, m, "int") THEN Rejected(r)
                 ELSE Push(r, m, f1, Frame(j, "nsaddr", f.qd + 1, f.cd, f.dd, Append(f.nsl, j)), 11)
    [] f.ph = 2 ->
         \* the zone's own server
         IF r.attL[n] >= MaxAttempts THEN Ret(r, f, "loc")   \* ErrResolutionAttemptLimit
         ELSE LET tcp == k = "LAME" /\ r.attL[n] = 2         \* udp, udp, tcp
              IN IF ~SendOK(r, m, tcp) THEN Rejected(r)
                 ELSE LET r1 == [Send(r, m, tcp) EXCEPT !.attL[n] = @ + 1]
                      IN (CASE k \in {"A", "NS"} -> Ret(r1, f, "ok")
                           [] k = "CNAME" ->
                                LET j == MinOf(topo[n].tgt)
                                IN IF j = n THEN Ret(r1, f, "gen")          \* cr.Target == q.Name
                                   ELSE IF f.cd >= MaxChase THEN Ret(r1, f, "partial")
                                   ELSE SetTop(r1, [f EXCEPT !.ph = 25, !.pend = j])
                           [] k = "DNAME" ->
                                LET j == MinOf(topo[n].tgt)
                                IN IF f.dd >= MaxDname THEN Ret(r1, f, "gen") \* errMaxDepth
                                   ELSE SetTop(r1, [f EXCEPT !.ph = 25, !.pend = j])
                           [] k = "LAME" -> IF r1.attL[n] >= MaxAttempts THEN Ret(r1, f, "gen") ELSE SetTop(r1, f)
                           [] k \in {"REFUSE", "SELFREF"} -> Ret(r1, f, "gen")
                           [] k = "REFGEN" -> SetTop(r1, [f EXCEPT !.ph = 20, !.sub = topo[n].fan, !.sp = 0]))
    [] f.ph = 25 ->
         \* follow the alias through Queryer.Query
         IF f.qd >= MaxQ
         THEN (IF k = "CNAME" THEN Ret(r, f, "partial") ELSE Ret(r, f, "rec"))
         ELSE IF ~Accepts(r, m, "int") THEN Rejected(r)
         ELSE LET cd1 == IF k = "CNAME" THEN f.cd + 1 ELSE f.cd
                  dd1 == IF k = "DNAME" THEN f.dd + 1 ELSE f.dd
              IN Push(r, m, f, Frame(f.pend, IF k = "CNAME" THEN "cname" ELSE "dname", f.qd + 1, cd1, dd1, f.nsl), 3)
    [] f.ph = 3 ->
         \* the alias target came back
         IF f.cret = "none" THEN r   \* unreachable: a waiting frame is never on top
         ELSE LET c == f.cret
                  res == IF k = "CNAME"
                         THEN (CASE c = "ok" -> "ok" [] c \in {"partial", "gen", "rec"} -> "partial" [] OTHER -> "loc")
                         ELSE (CASE c = "ok" -> "ok" [] c = "partial" -> "partial" [] c = "gen" -> "gen" [] c = "rec" -> "rec" [] OTHER -> "loc")
              IN Ret([r EXCEPT !.hops = IF res = "ok" THEN @ + 1 ELSE @], [f EXCEPT !.cret = "none"], res)
    [] f.ph = 20 ->
         \* the referral generator: f NXNS-style address lookups per level, then one level deeper
         IF f.sub > 0
         THEN (CASE f.sp = 0 -> IF f.qd >= MaxQ THEN Ret(r, f, "rec")
                               ELSE IF ~Accepts(r, m, "int") THEN Rejected(r)
                               ELSE SetTop(Started(Debited(r, m, "int")), [f EXCEPT !.sp = IF r.knowSink THEN 2 ELSE 1])
                [] f.sp = 1 -> IF ~SendOK(r, m, FALSE) THEN Rejected(r)
                               ELSE SetTop([Send(r, m, FALSE) EXCEPT !.knowSink = TRUE], [f EXCEPT !.sp = 2])
                [] OTHER    -> IF ~SendOK(r, m, FALSE) THEN Rejected(r)
                               ELSE SetTop(Send(r, m, FALSE), [f EXCEPT !.sp = 0, !.sub = @ - 1]))
         ELSE IF f.md <= 1 THEN Ret(r, f, "gen")           \* errMaxDepth
         ELSE IF ~SendOK(r, m, FALSE) THEN Rejected(r)
         ELSE SetTop(Send(r, m, FALSE), [f EXCEPT !.md = @ - 1, !.sub = topo[n].fan, !.sp = 0])
    [] f.ph = 30 ->
         \* a detached job's AAAA question for the in-zone NS name of zone n (0 = test.) at that zone's own
         \* server: NODATA; a dead server costs the udp, udp, tcp ladder
         IF f.sub = 0 THEN Ret(r, f, "ok")
         ELSE LET tcp == n # 0 /\ topo[n].kind = "LAME" /\ f.sub = 1
              IN IF ~SendOK(r, m, tcp) THEN Rejected(r)
                 ELSE SetTop(Send(r, m, tcp), [f EXCEPT !.sub = @ - 1])
    [] OTHER -> r

\* The detached jobs, one NS host at a time (lookupV6Nss): Queryer.Query debits one internal sub-query
\* on the ledger the job's context carries, then the sub-pipeline runs.  Under the DetachedFresh mutant the
\* context carries none: the lookup's own start is booked nowhere and the sub-pipeline's chain head
\* creates a new ledger with the full budget.
NsCost(z) == IF z = 0 THEN 1
             ELSE CASE topo[z].kind = "LAME" -> MaxAttempts [] topo[z].kind = "REFGEN" -> 2 [] OTHER -> 1
StepJobs(r, m) ==
  IF r.jobs = <<>> THEN [r EXCEPT !.fin = TRUE]          \* the last retain is released: the tree is published
  ELSE LET job == Head(r.jobs)
       IN IF job = <<>> THEN [r EXCEPT !.jobs = Tail(@)]  \* lookupV6Nss returns
          ELSE LET h == Head(job)
                   r0 == [r EXCEPT !.jobs = <<Tail(job)>> \o Tail(@)]
                   r1 == IF Fresh(r0) THEN [r0 EXCEPT !.fout = 0, !.fint = 0] ELSE r0
                   z == IF h = 0 THEN 0 ELSE h - N
                   child == IF h \in Nodes THEN Frame(h, "v6addr", 1, 0, 0, <<h>>)
                            ELSE [Frame(z, "v6ns", 1, 0, 0, <<>>) EXCEPT !.ph = 30, !.sub = NsCost(z)]
               IN IF ~Fresh(r1) /\ ~Accepts(r1, m, "int") THEN Rejected(r1)
                  ELSE [Started(IF Fresh(r1) THEN r1 ELSE Debited(r1, m, "int")) EXCEPT !.stack = <<child>>]

\* result codes: ok | partial (alias without its target) | gen (genuine, shareable failure) |
\* loc (ErrResolutionAttemptLimit, request-local) | rec (ErrMaxRecursion, request-local).
\* lookupV4Nss skips a host on "loc"/"gen" but returns on "rec".
Step(r, m) == IF r.fin THEN r
              ELSE IF r.stack # <<>> THEN StepFrame(r, m)
              ELSE StepJobs(r, m)

(***************************************************************************)
(* Behaviours                                                              *)
(***************************************************************************)
Init == /\ topo \in Topologies
        /\ budget \in Budgets
        /\ v6 \in V6Set
        /\ run = [m \in Modes |-> R0]

AllDone == \A m \in Modes : run[m].fin

Summary ==
  [t |-> [n \in Nodes |-> [kind |-> topo[n].kind, tgt |-> topo[n].tgt, fan |-> topo[n].fan]],
   b |-> budget, v6 |-> v6,
   r |-> [m \in Modes |-> [reply |-> run[m].reply, pk |-> run[m].pk, out |-> run[m].out,
                           int |-> run[m].int, rec |-> run[m].recorded, hops |-> run[m].hops]]]

Advance == /\ ~AllDone
           /\ run' = [m \in Modes |-> Step(run[m], m)]
           /\ UNCHANGED <<topo, budget, v6>>
           /\ (Emit /\ (\A m \in Modes : Step(run[m], m).fin)) =>
                 PrintT(ToJson([t |-> Summary.t, b |-> budget, v6 |-> v6,
                                r |-> [m \in Modes |-> LET x == Step(run[m], m)
                                                       IN [reply |-> x.reply, pk |-> x.pk, out |-> x.out, int |-> x.int,
                                                           rec |-> x.recorded, hops |-> x.hops,
                                                           sq |-> x.sq, dpk |-> x.dpk, dsq |-> x.dsq]]]))

Next == Advance

Spec == Init /\ [][Next]_vars /\ WF_vars(Next)

(***************************************************************************)
(* Decreasing measure (why the caps alone make the behaviour graph acyclic) *)
(***************************************************************************)
R0Rank == 6
Unit == R0Rank + 1
Lvl == 1 + 3 * MaxGenFan
W == 4096
\* what a job started by this frame may add to the local rank (one step per job plus one unit per host)
JobPot == 1 + Unit * MaxFan

Rank(f) ==
  IF f.ret # "none" THEN 2
  ELSE CASE f.ph = 0 -> 6
         [] f.ph = 1 -> 5
         [] f.ph = 2 -> 4
         [] f.ph = 11 -> 5 + JobPot + Unit * Cardinality(f.todo) + (IF f.cret # "none" THEN 1 ELSE 0)
         [] f.ph = 25 -> 4 + Unit
         [] f.ph = 3 -> 3 + (IF f.cret # "none" THEN 1 ELSE 0)
         [] f.ph = 30 -> 3 + f.sub
         [] f.ph = 20 -> 3 + f.md * (Lvl + 1) + (IF f.sub > 0 THEN 3 * (f.sub - 1) + (3 - f.sp) ELSE 0)
         [] OTHER -> 0

RECURSIVE SumRank(_)
SumRank(s) == IF s = <<>> THEN 0 ELSE Rank(Head(s)) + SumRank(Tail(s))

RECURSIVE SumAtt(_, _)
SumAtt(a, S) == IF S = {} THEN 0 ELSE LET x == CHOOSE y \in S : TRUE IN (MaxAttempts - a[x]) + SumAtt(a, S \ {x})

Slots(r) == SumAtt(r.attT, Nodes) + SumAtt(r.attL, Nodes)
            + (IF r.knowTest THEN 0 ELSE 1) + (IF r.knowSink THEN 0 ELSE 1)

RECURSIVE JobsRank(_)
JobsRank(js) == IF js = <<>> THEN 0 ELSE 1 + Unit * Len(Head(js)) + JobsRank(Tail(js))

Local(r) == SumRank(r.stack) + JobsRank(r.jobs) + (IF r.fin THEN 0 ELSE 1)
Measure(r) == Slots(r) * W + Local(r)

(***************************************************************************)
(* Properties                                                              *)
(***************************************************************************)
TypeOK == /\ \A m \in Modes : /\ run[m].reply \in {"none", "answer", "servfail", "servfail_ede"}
                              /\ Len(run[m].stack) <= MaxQ + 1
                              /\ run[m].done <=> run[m].reply # "none"

\* Terminates (1): every behaviour reaches Done (no cycle, no stuck state)
Terminates == <>AllDone
\* Terminates (2): a natural-number measure strictly decreases on every step of every run
MeasureDecreases ==
  [][\A m \in Modes : ~run[m].fin => Measure(run'[m]) < Measure(run[m])]_vars
LocalBelowW == \A m \in Modes : Local(run[m]) < W

\* WithinBudget: enforce mode -- packets actually sent and sub-queries actually started by the whole
\* request tree, detached helper lookups included (a state invariant: it also holds when the tree is finished)
WithinBudget == /\ run["enforce"].pk <= budget[1]
                /\ run["enforce"].sq <= budget[2]
                /\ run["enforce"].out <= budget[1]
                /\ run["enforce"].int <= budget[2]

\* OneLedgerPerTree: every packet and every sub-query of the tree -- nested pipelines and detached jobs
\* included -- is booked on the tree's one ledger (what shadow mode counts is what was done)
OneLedgerPerTree == \A m \in {"shadow", "enforce"} : run[m].pk = run[m].out /\ run[m].sq = run[m].int

\* ReplyIsFinal: detached work can neither change what the client got nor poison the tree after the fact
ReplyIsFinal ==
  [][\A m \in Modes : run[m].reply # "none" =>
        /\ run'[m].reply = run[m].reply
        /\ run'[m].recorded = run[m].recorded
        /\ run'[m].latched = run[m].latched]_vars

\* OverBudgetIsPrivate: the over-budget reply is SERVFAIL+EDE and is never recorded as shared state;
\* and the EDE reply appears only when a debit was rejected
OverBudgetIsPrivate ==
  \A m \in Modes : /\ run[m].latched => (run[m].reply = "servfail_ede" /\ ~run[m].recorded)
                   /\ run[m].reply = "servfail_ede" => (run[m].latched /\ m = "enforce")

\* ShadowEqualsOff: lockstep equality of everything except the counters
Proj(r) == [r EXCEPT !.out = 0, !.int = 0, !.fout = 0, !.fint = 0]
ShadowEqualsOff == Proj(run["shadow"]) = Proj(run["off"])

\* enforce differs from off only by dying early (the tree, or a best-effort helper job of it)
EnforceIsPrefix == (~run["enforce"].latched /\ ~run["enforce"].starved) => Proj(run["enforce"]) = Proj(run["off"])
=============================================================================
