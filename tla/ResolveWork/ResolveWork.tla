--------------------------- MODULE ResolveWork ---------------------------
(***************************************************************************)
(* C12, pipeline tier.  An abstract sdns resolver over an ADVERSARIAL       *)
(* dependency graph chosen by TLC (every Init choice = one topology).       *)
(*                                                                         *)
(* Nodes are (name,type) goals x.d.z<i>.test./A.  Node kinds (= edge kinds) *)
(*   A        terminal answer                                               *)
(*   CNAME j  alias into zone j       (cache.additionalAnswer chase)        *)
(*   DNAME j  DNAME into zone j       (resolver.checkDname)                 *)
(*   NS J     zone z<i> is delegated GLUELESS to the goals J (fan-out<=3):  *)
(*            its servers' addresses are themselves goals (lookupV4Nss)     *)
(*   LAME     delegated to a server that never answers (retry->TCP ladder)  *)
(*   REFUSE   delegated to a server that refuses                            *)
(*   SELFREF  server refers every question back to its own zone             *)
(*   REFGEN f ever-deeper referral generator, f glueless NS names per level *)
(* Cycles of any length <= N arise from CNAME/DNAME/NS edges.               *)
(*                                                                         *)
(* The resolver is DETERMINISTIC given the topology, so it is written as a  *)
(* function Step(r) on a run record; the three firewall modes run in        *)
(* lockstep in one behaviour, which turns ShadowEqualsOff (a relation       *)
(* between two runs) into a state invariant.                                *)
(*                                                                         *)
(* Code caps modelled as guards: MaxQ = maxQueryerRecursion (32), MaxChase  *)
(* = maxCnameChaseDepth (10), MaxDname = maxDnameDepth (10), 3 attempts per *)
(* (question, endpoint, transport) = ResolutionAttemptGuard, checkLoop      *)
(* count > 1; MaxDepth stands for cfg.Maxdepth (30) and is scaled down in   *)
(* the configurations (it only bounds the referral generator).              *)
(* Every transport attempt and every sub-query debits the ledger FIRST      *)
(* (Resolver.exchange, pipelineQueryer.Query).                              *)
(*                                                                         *)
(* Deliberate deviations: referral depth is only counted for the generator; *)
(* the answer cache inside one request tree is not modelled (the code's     *)
(* inner answers are stored only after the chase completed); qname          *)
(* minimisation only changes packet counts and is left to the replay.       *)
(***************************************************************************)
EXTENDS Naturals, Sequences, FiniteSets, TLC, Json

CONSTANTS N,            \* number of goals
          MaxFan,       \* glueless NS fan-out
          KindSet,      \* node kinds allowed in this configuration
          GenFans,      \* set of generator fan-outs
          Budgets,      \* set of <<MaxOutbound, MaxInternal>>
          MaxDepth, MaxQ, MaxChase, MaxDname,
          \* model mutants (regression configurations must FAIL with these on)
          TcpNotDebited, ShadowRejects, LeakBudgetFailure, LoopCapOff,
          Emit          \* print one JSON line per finished behaviour

Nodes == 1..N
Modes == {"off", "shadow", "enforce"}
MaxAttempts == 3
MaxGenFan == 2

VARIABLES topo, budget, run

vars == <<topo, budget, run>>

(***************************************************************************)
(* Topologies                                                              *)
(***************************************************************************)
NodeOpts ==
  (IF "A" \in KindSet THEN {[kind |-> "A", tgt |-> {}, fan |-> 0]} ELSE {})
  \cup (IF "CNAME" \in KindSet THEN {[kind |-> "CNAME", tgt |-> {j}, fan |-> 0] : j \in Nodes} ELSE {})
  \cup (IF "DNAME" \in KindSet THEN {[kind |-> "DNAME", tgt |-> {j}, fan |-> 0] : j \in Nodes} ELSE {})
  \cup (IF "NS" \in KindSet
        THEN {[kind |-> "NS", tgt |-> J, fan |-> 0] : J \in {S \in SUBSET Nodes : S # {} /\ Cardinality(S) <= MaxFan}}
        ELSE {})
  \cup (IF "LAME" \in KindSet THEN {[kind |-> "LAME", tgt |-> {}, fan |-> 0]} ELSE {})
  \cup (IF "REFUSE" \in KindSet THEN {[kind |-> "REFUSE", tgt |-> {}, fan |-> 0]} ELSE {})
  \cup (IF "SELFREF" \in KindSet THEN {[kind |-> "SELFREF", tgt |-> {}, fan |-> 0]} ELSE {})
  \cup (IF "REFGEN" \in KindSet THEN {[kind |-> "REFGEN", tgt |-> {}, fan |-> f] : f \in GenFans} ELSE {})

\* nodes reachable from the client's goal (node 1)
RECURSIVE ReachFrom(_, _, _)
ReachFrom(t, seen, frontier) ==
  IF frontier = {} THEN seen
  ELSE LET nxt == (UNION {t[n].tgt : n \in frontier}) \ seen
       IN ReachFrom(t, seen \cup nxt, nxt)
Reach(t) == ReachFrom(t, {1}, {1})

\* canonical: every node is reachable (smaller graphs are covered by smaller N)
Topologies == {t \in [Nodes -> NodeOpts] : Reach(t) = Nodes}

(***************************************************************************)
(* Run record                                                              *)
(***************************************************************************)
NoFrame == [node |-> 0]

Frame(n, via, qd, cd, dd, nsl) ==
  [node |-> n, via |-> via, ph |-> 0, todo |-> {}, found |-> FALSE,
   qd |-> qd, cd |-> cd, dd |-> dd, md |-> MaxDepth, nsl |-> nsl,
   sub |-> 0, sp |-> 0, pend |-> 0, ret |-> "none", cret |-> "none"]

R0 ==
  [stack |-> <<Frame(1, "client", 0, 0, 0, <<>>)>>,
   out |-> 0, int |-> 0, pk |-> 0, latched |-> FALSE,
   attT |-> [n \in Nodes |-> 0], attL |-> [n \in Nodes |-> 0],
   knowTest |-> FALSE, knowSink |-> FALSE, knowZone |-> {},
   reply |-> "none", recorded |-> FALSE, hops |-> 0, done |-> FALSE]

Top(r) == r.stack[Len(r.stack)]
SetTop(r, f) == [r EXCEPT !.stack[Len(r.stack)] = f]

Count(seq, x) == Cardinality({i \in 1..Len(seq) : seq[i] = x})
MinOf(S) == CHOOSE x \in S : \A y \in S : x <= y

(***************************************************************************)
(* The ledger: debit first.  Debit(r,m,kind) = <<accepted, r'>>.            *)
(* off: no ledger.  shadow: count only.  enforce: CAS never passes the cap, *)
(* the first rejection is latched and terminal for the whole request tree.  *)
(***************************************************************************)
Cap(kind) == IF kind = "out" THEN budget[1] ELSE budget[2]
Used(r, kind) == IF kind = "out" THEN r.out ELSE r.int
Bump(r, kind) == IF kind = "out" THEN [r EXCEPT !.out = @ + 1] ELSE [r EXCEPT !.int = @ + 1]

Rejecting(m) == m = "enforce" \/ (ShadowRejects /\ m = "shadow")

Accepts(r, m, kind) == ~Rejecting(m) \/ Used(r, kind) < Cap(kind)

Debited(r, m, kind) == IF m = "off" THEN r ELSE Bump(r, kind)

\* the request tree dies: SERVFAIL + EDE, request-local
Rejected(r) ==
  [r EXCEPT !.stack = <<>>, !.latched = TRUE, !.reply = "servfail_ede",
            !.recorded = LeakBudgetFailure, !.done = TRUE]

\* one upstream packet (a transport attempt): debit, then send
Send(r, m, tcp) ==
  LET d == IF tcp /\ TcpNotDebited THEN r ELSE Debited(r, m, "out")
  IN [d EXCEPT !.pk = @ + 1]
SendOK(r, m, tcp) == (tcp /\ TcpNotDebited) \/ Accepts(r, m, "out")

(***************************************************************************)
(* One step of the resolver on the top frame                               *)
(***************************************************************************)
Ret(r, f, code) == SetTop(r, [f EXCEPT !.ret = code])

Push(r, m, f, child, nextPh) ==
  \* pipelineQueryer.Query: recursion bound, THEN debit, then run the sub-pipeline
  LET parent == [f EXCEPT !.ph = nextPh, !.pend = 0]
      r1 == Debited(r, m, "int")
  IN [r1 EXCEPT !.stack = Append(SubSeq(r.stack, 1, Len(r.stack) - 1) \o <<parent>>, child)]

StepFrame(r, m) ==
  LET f == Top(r)
      n == f.node
      k == topo[n].kind
  IN
  CASE f.ret # "none" ->
         \* pop: hand the result to the parent, or finish the client query
         IF Len(r.stack) = 1
         THEN [r EXCEPT !.stack = <<>>, !.done = TRUE,
                        !.reply = IF f.ret \in {"ok", "partial"} THEN "answer" ELSE "servfail",
                        !.recorded = (f.ret = "gen")]
         ELSE LET p == r.stack[Len(r.stack) - 1]
              IN [r EXCEPT !.stack = Append(SubSeq(r.stack, 1, Len(r.stack) - 2), [p EXCEPT !.cret = f.ret])]
    [] f.ph = 0 ->
         \* root: the referral to test. is learned once (delegation cache)
         IF r.knowTest THEN SetTop(r, [f EXCEPT !.ph = 1])
         ELSE IF ~SendOK(r, m, FALSE) THEN Rejected(r)
         ELSE SetTop([Send(r, m, FALSE) EXCEPT !.knowTest = TRUE], [f EXCEPT !.ph = 1])
    [] f.ph = 1 ->
         \* test.: referral to z<n>; glueless zones need their NS addresses first
         IF n \in r.knowZone THEN SetTop(r, [f EXCEPT !.ph = 2])
         ELSE IF r.attT[n] >= MaxAttempts THEN Ret(r, f, "loc")
         ELSE IF ~SendOK(r, m, FALSE) THEN Rejected(r)
         ELSE LET r1 == [Send(r, m, FALSE) EXCEPT !.attT[n] = @ + 1]
              IN IF k = "NS"
                 THEN SetTop(r1, [f EXCEPT !.ph = 11, !.todo = topo[n].tgt, !.found = FALSE])
                 ELSE SetTop([r1 EXCEPT !.knowZone = @ \cup {n}], [f EXCEPT !.ph = 2])
    [] f.ph = 11 ->
         \* lookupV4Nss: every NS host in turn (checkLoop, then an internal A lookup)
         IF f.cret # "none"
         THEN LET stop == f.cret = "rec"   \* ErrMaxRecursion is returned, not skipped
              IN IF stop THEN Ret(r, [f EXCEPT !.cret = "none"], "rec")
                 ELSE SetTop(r, [f EXCEPT !.cret = "none", !.found = (f.found \/ f.cret = "ok")])
         ELSE IF f.todo = {}
         THEN IF f.found THEN SetTop([r EXCEPT !.knowZone = @ \cup {n}], [f EXCEPT !.ph = 2])
              ELSE Ret(r, f, "gen")                     \* errNoReachableAuth
         ELSE LET j == MinOf(f.todo)
                  f1 == [f EXCEPT !.todo = @ \ {j}]
              IN IF ~LoopCapOff /\ Count(f.nsl, j) > 1 THEN SetTop(r, f1)   \* checkLoop: loopCount > 1
                 ELSE IF f.qd >= MaxQ THEN Ret(r, f1, "rec")              \* ErrMaxRecursion
                 ELSE IF ~Accepts(r, m, "int") THEN Rejected(r)
                 ELSE Push(r, m, f1, Frame(j, "nsaddr", f.qd + 1, f.cd, f.dd, Append(f.nsl, j)), 11)
    [] f.ph = 2 ->
         \* the zone's own server
         IF r.attL[n] >= MaxAttempts THEN Ret(r, f, "loc")   \* ErrResolutionAttemptLimit
         ELSE LET tcp == k = "LAME" /\ r.attL[n] = 2         \* udp, udp, tcp
              IN IF ~SendOK(r, m, tcp) THEN Rejected(r)
                 ELSE LET r1 == [Send(r, m, tcp) EXCEPT !.attL[n] = @ + 1]
                      IN (CASE k \in {"A", "NS"} -> Ret(r1, f, "ok")
                           [] k = "CNAME" ->
                                LET j == MinOf(topo[n].tgt)
                                IN IF j = n THEN Ret(r1, f, "gen")          \* cr.Target == q.Name
                                   ELSE IF f.cd >= MaxChase THEN Ret(r1, f, "partial")
                                   ELSE SetTop(r1, [f EXCEPT !.ph = 25, !.pend = j])
                           [] k = "DNAME" ->
                                LET j == MinOf(topo[n].tgt)
                                IN IF f.dd >= MaxDname THEN Ret(r1, f, "gen") \* errMaxDepth
                                   ELSE SetTop(r1, [f EXCEPT !.ph = 25, !.pend = j])
                           [] k = "LAME" -> IF r1.attL[n] >= MaxAttempts THEN Ret(r1, f, "gen") ELSE SetTop(r1, f)
                           [] k \in {"REFUSE", "SELFREF"} -> Ret(r1, f, "gen")
                           [] k = "REFGEN" -> SetTop(r1, [f EXCEPT !.ph = 20, !.sub = topo[n].fan, !.sp = 0]))
    [] f.ph = 25 ->
         \* follow the alias through Queryer.Query
         IF f.qd >= MaxQ
         THEN (IF k = "CNAME" THEN Ret(r, f, "partial") ELSE Ret(r, f, "rec"))
         ELSE IF ~Accepts(r, m, "int") THEN Rejected(r)
         ELSE LET cd1 == IF k = "CNAME" THEN f.cd + 1 ELSE f.cd
                  dd1 == IF k = "DNAME" THEN f.dd + 1 ELSE f.dd
              IN Push(r, m, f, Frame(f.pend, IF k = "CNAME" THEN "cname" ELSE "dname", f.qd + 1, cd1, dd1, f.nsl), 3)
    [] f.ph = 3 ->
         \* the alias target came back
         IF f.cret = "none" THEN r   \* unreachable: a waiting frame is never on top
         ELSE LET c == f.cret
                  res == IF k = "CNAME"
                         THEN (CASE c = "ok" -> "ok" [] c \in {"partial", "gen", "rec"} -> "partial" [] OTHER -> "loc")
                         ELSE (CASE c = "ok" -> "ok" [] c = "partial" -> "partial" [] c = "gen" -> "gen" [] c = "rec" -> "rec" [] OTHER -> "loc")
              IN Ret([r EXCEPT !.hops = IF res = "ok" THEN @ + 1 ELSE @], [f EXCEPT !.cret = "none"], res)
    [] f.ph = 20 ->
         \* the referral generator: f NXNS-style address lookups per level, then one level deeper
         IF f.sub > 0
         THEN (CASE f.sp = 0 -> IF f.qd >= MaxQ THEN Ret(r, f, "rec")
                               ELSE IF ~Accepts(r, m, "int") THEN Rejected(r)
                               ELSE SetTop(Debited(r, m, "int"), [f EXCEPT !.sp = IF r.knowSink THEN 2 ELSE 1])
                [] f.sp = 1 -> IF ~SendOK(r, m, FALSE) THEN Rejected(r)
                               ELSE SetTop([Send(r, m, FALSE) EXCEPT !.knowSink = TRUE], [f EXCEPT !.sp = 2])
                [] OTHER    -> IF ~SendOK(r, m, FALSE) THEN Rejected(r)
                               ELSE SetTop(Send(r, m, FALSE), [f EXCEPT !.sp = 0, !.sub = @ - 1]))
         ELSE IF f.md <= 1 THEN Ret(r, f, "gen")           \* errMaxDepth
         ELSE IF ~SendOK(r, m, FALSE) THEN Rejected(r)
         ELSE SetTop(Send(r, m, FALSE), [f EXCEPT !.md = @ - 1, !.sub = topo[n].fan, !.sp = 0])
    [] OTHER -> r

\* result codes: ok | partial (alias without its target) | gen (genuine, shareable failure) |
\* loc (ErrResolutionAttemptLimit, request-local) | rec (ErrMaxRecursion, request-local).
\* lookupV4Nss skips a host on "loc"/"gen" but returns on "rec".
Step(r, m) == IF r.done \/ r.stack = <<>> THEN r ELSE StepFrame(r, m)

(***************************************************************************)
(* Behaviours                                                              *)
(***************************************************************************)
Init == /\ topo \in Topologies
        /\ budget \in Budgets
        /\ run = [m \in Modes |-> R0]

AllDone == \A m \in Modes : run[m].done

Summary ==
  [t |-> [n \in Nodes |-> [kind |-> topo[n].kind, tgt |-> topo[n].tgt, fan |-> topo[n].fan]],
   b |-> budget,
   r |-> [m \in Modes |-> [reply |-> run[m].reply, pk |-> run[m].pk, out |-> run[m].out,
                           int |-> run[m].int, rec |-> run[m].recorded, hops |-> run[m].hops]]]

Advance == /\ ~AllDone
           /\ run' = [m \in Modes |-> Step(run[m], m)]
           /\ UNCHANGED <<topo, budget>>
           /\ (Emit /\ (\A m \in Modes : Step(run[m], m).done)) =>
                 PrintT(ToJson([t |-> Summary.t, b |-> budget,
                                r |-> [m \in Modes |-> LET x == Step(run[m], m)
                                                       IN [reply |-> x.reply, pk |-> x.pk, out |-> x.out, int |-> x.int,
                                                           rec |-> x.recorded, hops |-> x.hops]]]))

Next == Advance

Spec == Init /\ [][Next]_vars /\ WF_vars(Next)

(***************************************************************************)
(* Decreasing measure (why the caps alone make the behaviour graph acyclic) *)
(***************************************************************************)
R0Rank == 6
Unit == R0Rank + 1
Lvl == 1 + 3 * MaxGenFan
W == 2048

Rank(f) ==
  IF f.ret # "none" THEN 2
  ELSE CASE f.ph = 0 -> 6
         [] f.ph = 1 -> 5
         [] f.ph = 2 -> 4
         [] f.ph = 11 -> 5 + Unit * Cardinality(f.todo) + (IF f.cret # "none" THEN 1 ELSE 0)
         [] f.ph = 25 -> 4 + Unit
         [] f.ph = 3 -> 3 + (IF f.cret # "none" THEN 1 ELSE 0)
         [] f.ph = 20 -> 3 + f.md * (Lvl + 1) + (IF f.sub > 0 THEN 3 * (f.sub - 1) + (3 - f.sp) ELSE 0)
         [] OTHER -> 0

RECURSIVE SumRank(_)
SumRank(s) == IF s = <<>> THEN 0 ELSE Rank(Head(s)) + SumRank(Tail(s))

RECURSIVE SumAtt(_, _)
SumAtt(a, S) == IF S = {} THEN 0 ELSE LET x == CHOOSE y \in S : TRUE IN (MaxAttempts - a[x]) + SumAtt(a, S \ {x})

Slots(r) == SumAtt(r.attT, Nodes) + SumAtt(r.attL, Nodes)
            + (IF r.knowTest THEN 0 ELSE 1) + (IF r.knowSink THEN 0 ELSE 1)

Measure(r) == Slots(r) * W + SumRank(r.stack)

(***************************************************************************)
(* Properties                                                              *)
(***************************************************************************)
TypeOK == /\ \A m \in Modes : /\ run[m].reply \in {"none", "answer", "servfail", "servfail_ede"}
                              /\ Len(run[m].stack) <= MaxQ + 1
                              /\ run[m].done <=> run[m].reply # "none"

\* Terminates (1): every behaviour reaches Done (no cycle, no stuck state)
Terminates == <>AllDone
\* Terminates (2): a natural-number measure strictly decreases on every step of every run
MeasureDecreases ==
  [][\A m \in Modes : ~run[m].done => Measure(run'[m]) < Measure(run[m])]_vars
LocalBelowW == \A m \in Modes : SumRank(run[m].stack) < W

\* WithinBudget: enforce mode -- packets actually sent and sub-queries actually started
WithinBudget == /\ run["enforce"].pk <= budget[1]
                /\ run["enforce"].out <= budget[1]
                /\ run["enforce"].int <= budget[2]

\* OverBudgetIsPrivate: the over-budget reply is SERVFAIL+EDE and is never recorded as shared state;
\* and the EDE reply appears only when a debit was rejected
OverBudgetIsPrivate ==
  \A m \in Modes : /\ run[m].latched => (run[m].reply = "servfail_ede" /\ ~run[m].recorded)
                   /\ run[m].reply = "servfail_ede" => (run[m].latched /\ m = "enforce")

\* ShadowEqualsOff: lockstep equality of everything except the counters
Proj(r) == [r EXCEPT !.out = 0, !.int = 0]
ShadowEqualsOff == Proj(run["shadow"]) = Proj(run["off"])

\* enforce differs from off only by dying early
EnforceIsPrefix == ~run["enforce"].latched => Proj(run["enforce"]) = Proj(run["off"])
=============================================================================
