CONSTANTS
  N = 3
  MaxFan = 3
  KindSet <- KindsNX
  GenFans <- Fans01
  Budgets <- BudgetsQ
  MaxDepth = 3
  MaxQ = 32
  MaxChase = 10
  MaxDname = 10
  TcpNotDebited = FALSE
  ShadowRejects = FALSE
  LeakBudgetFailure = FALSE
  LoopCapOff = FALSE
  V6Set <- V6On
  DetachedFresh = FALSE
  Emit = TRUE
SPECIFICATION Spec
INVARIANTS TypeOK WithinBudget OverBudgetIsPrivate ShadowEqualsOff EnforceIsPrefix LocalBelowW OneLedgerPerTree
PROPERTIES Terminates MeasureDecreases ReplyIsFinal
CHECK_DEADLOCK FALSE
