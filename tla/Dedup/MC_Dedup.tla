------------------------------ MODULE MC_Dedup ------------------------------
EXTENDS Dedup
(* two clients and one internal sub-query on one key *)
KeyOfSame == (1 :> 1 @@ 2 :> 1 @@ 3 :> 1)
(* two clients on one key, one on another *)
KeyOfSplit == (1 :> 1 @@ 2 :> 1 @@ 3 :> 2)
(* thorough: three clients on one key, one on another *)
KeyOf4 == (1 :> 1 @@ 2 :> 1 @@ 3 :> 1 @@ 4 :> 2)
(* thorough: three clients and one internal sub-query on one key *)
KeyOf4Same == (1 :> 1 @@ 2 :> 1 @@ 3 :> 1 @@ 4 :> 1)
=============================================================================
