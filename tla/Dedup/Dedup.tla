------------------------------- MODULE Dedup -------------------------------
(***************************************************************************)
(* C11 core: the request-deduplication loop of middleware/cache            *)
(* Cache.ServeDNS over the real internal/waitgroup API, with the           *)
(* written-once middleware responseWriter.                                 *)
(*                                                                         *)
(* One action per critical section / API call of the code:                 *)
(*   waitgroup.JoinGeneration / Regroup / DoneGeneration  (each runs under *)
(*   WaitGroup.mu; Regroup additionally holds previous.nextMu over the     *)
(*   whole call), the expiry of a generation's bounded wait (Timeout),     *)
(*   Cache.ServeDNS: FirstLookup (cache / failure-cache probe before the   *)
(*   join), Wait (the select on generation.Done / ctx.Done followed by the *)
(*   deterministic cancellation preference), Recheck (the follower's       *)
(*   second look at the caches and the regroup decision), LeadCheck (the   *)
(*   EffectiveError test before downstream), Downstream (ch.Next: the      *)
(*   lower handlers produce one reply through cache.ResponseWriter, which  *)
(*   stores an answer / records a shared failure / leaves a request-local  *)
(*   failure unrecorded), and the deferred DoneGeneration of a leader.     *)
(*                                                                         *)
(* Deliberate abstractions (named deviations):                             *)
(*   - Whether a key is an "expired RFC 9520 failure probe"                *)
(*     (Store.FailureRetryKey) is a constant per key (Probe); the dedup    *)
(*     key of a request never changes.  Failure backoff expiry is C13.     *)
(*   - A downstream that outlives its request deadline returns a           *)
(*     request-local failure (what the resolver does); with the deadline   *)
(*     passed the cache wrapper records nothing shared either way.         *)
(*   - Timed = FALSE: no clock, deadlines / cancellations / generation     *)
(*     timeouts fire at any moment (every timing at once: safety and       *)
(*     liveness configs).  Timed = TRUE: time is a small Nat; with         *)
(*     Urgent = TRUE zero-time steps happen before the clock moves, which  *)
(*     turns "in time" into an invariant.                                  *)
(***************************************************************************)
EXTENDS Integers, FiniteSets, Sequences, TLC

CONSTANTS
  Reqs,         \* request identities (client queries and internal sub-queries)
  Keys,         \* dedup keys
  KeyOf,        \* [Reqs -> Keys]
  Internal,     \* SUBSET Reqs : writer.Internal() = TRUE (must skip the join)
  Probe,        \* SUBSET Keys : FailureRetryKey(req) is ok (expired failure generation retained)
  MaxGen,       \* bound on generations ever created
  MaxRegroups,  \* cache.maxFailureProbeRegroups (1)
  D,            \* request deadline (query timeout), in ticks after arrival
  W,            \* WaitGroup bounded wait (15 s in cache.New), in ticks after creation
  MaxT,         \* clock bound
  MaxArrive,    \* latest arrival time
  Timed,        \* FALSE: no clock; generation timeouts and request deadlines may fire at any moment
                \*        (every timing at once -- the safety configs).  TRUE: they fire when due.
  Urgent,       \* TRUE: zero-time steps precede Tick (bounded-time configs)
  DupWrite,     \* TRUE: a downstream may attempt a second WriteMsg on the same writer
  EnvOn,        \* FALSE: no deadline / cancellation / generation timeout (quiet protocol runs for simulation)
  Defensive,    \* TRUE: a caller that does not test generationTimedOut itself and relies on
                \*       Regroup's own tombstone rule (API-level behaviours for the waitgroup replay;
                \*       Cache.ServeDNS is Defensive = FALSE)
  WriterGuard,  \* TRUE in the code: responseWriter refuses a write once Written()
  Bug           \* "none" in the code.  Negative configs (TLC must find the violation, so the invariants
                \* are not vacuous): "recordLocal" = a request-local failure is recorded as shared state;
                \* "regroupTombstone" = Regroup ignores that the previous generation timed out

VARIABLES
  groups,    \* [Keys -> 0..MaxGen]   WaitGroup.groups (0 = no entry)
  ngen,      \* generations created so far
  gKey, gDone, gTO, gNext, gLeader, gBorn,   \* per generation: key, ctx done, Err()=DeadlineExceeded, next, creator, creation time
  gDoneBy,   \* ghost: who called DoneGeneration on it (0 = nobody)
  cached,    \* [Keys -> BOOLEAN]  a positive entry is stored
  failed,    \* [Keys -> BOOLEAN]  an active shared (RFC 9520) failure is stored
  failedBy,  \* ghost: [Keys -> {"none","shared","local"}] provenance of that failure entry
  pc,        \* [Reqs -> control point]
  role,      \* [Reqs -> {"none","leader","fall"}]  how the request goes downstream
  mygen,     \* [Reqs -> 0..MaxGen]  generation token held (leader: own; follower: waited on)
  prev,      \* [Reqs -> 0..MaxGen]  previousGeneration of the dedup loop
  regroups,  \* [Reqs -> Nat]        failureProbeRegroups
  arrival,   \* [Reqs -> Nat]
  cx,        \* [Reqs -> {"live","deadline","canceled"}]  request context
  wflag,     \* [Reqs -> BOOLEAN]   responseWriter.Written()
  sent,      \* [Reqs -> Nat]       replies that reached the transport
  reply,     \* [Reqs -> kind]      first reply delivered
  downs,     \* ghost: [0..MaxGen -> Nat] downstream invocations made as leader of a generation
  now

wgVars    == <<groups, ngen, gKey, gDone, gTO, gNext, gLeader, gBorn, gDoneBy>>
storeVars == <<cached, failed, failedBy>>
reqVars   == <<pc, role, mygen, prev, regroups, arrival>>
wrVars    == <<wflag, sent, reply>>
vars      == <<wgVars, storeVars, reqVars, cx, wrVars, downs, now>>

Gens == 1..MaxGen
PCs == {"idle", "join", "wait", "recheck", "lead", "down", "exit", "fin"}
ReplyKinds == {"none", "answer", "servfail", "cachedfail", "local", "probelimit", "timeout"}

Init ==
  /\ groups = [k \in Keys |-> 0]
  /\ ngen = 0
  /\ gKey = [g \in Gens |-> CHOOSE k \in Keys : TRUE]
  /\ gDone = [g \in Gens |-> FALSE]
  /\ gTO = [g \in Gens |-> FALSE]
  /\ gNext = [g \in Gens |-> 0]
  /\ gLeader = [g \in Gens |-> 0]
  /\ gBorn = [g \in Gens |-> 0]
  /\ gDoneBy = [g \in Gens |-> 0]
  /\ cached = [k \in Keys |-> FALSE]
  /\ failed = [k \in Keys |-> FALSE]
  /\ failedBy = [k \in Keys |-> "none"]
  /\ pc = [r \in Reqs |-> "idle"]
  /\ role = [r \in Reqs |-> "none"]
  /\ mygen = [r \in Reqs |-> 0]
  /\ prev = [r \in Reqs |-> 0]
  /\ regroups = [r \in Reqs |-> 0]
  /\ arrival = [r \in Reqs |-> 0]
  /\ cx = [r \in Reqs |-> "live"]
  /\ wflag = [r \in Reqs |-> FALSE]
  /\ sent = [r \in Reqs |-> 0]
  /\ reply = [r \in Reqs |-> "none"]
  /\ downs = [g \in 0..MaxGen |-> 0]
  /\ now = 0

(* ------------------------- responseWriter ------------------------------ *)
(* WriteMsg / Write / WriteWire: refused with errAlreadyWritten once a      *)
(* response was emitted for this request.  n = number of write attempts.    *)
WriteN(r, kind, n) ==
  LET accepted == IF WriterGuard THEN (IF wflag[r] THEN 0 ELSE 1)
                                 ELSE n IN
  /\ wflag' = [wflag EXCEPT ![r] = TRUE]
  /\ sent' = [sent EXCEPT ![r] = @ + accepted]
  /\ reply' = [reply EXCEPT ![r] = IF reply[r] = "none" THEN kind ELSE @]
Write(r, kind) == WriteN(r, kind, 1)

(* ------------------------- internal/waitgroup -------------------------- *)
NewGen(k, r) ==
  /\ ngen < MaxGen
  /\ ngen' = ngen + 1
  /\ groups' = [groups EXCEPT ![k] = ngen + 1]
  /\ gKey' = [gKey EXCEPT ![ngen + 1] = k]
  /\ gLeader' = [gLeader EXCEPT ![ngen + 1] = r]
  /\ gBorn' = [gBorn EXCEPT ![ngen + 1] = now]

BecomeLeader(r, g) ==
  /\ pc' = [pc EXCEPT ![r] = "lead"]
  /\ role' = [role EXCEPT ![r] = "leader"]
  /\ mygen' = [mygen EXCEPT ![r] = g]

BecomeFollower(r, g) ==
  /\ pc' = [pc EXCEPT ![r] = "wait"]
  /\ mygen' = [mygen EXCEPT ![r] = g]
  /\ UNCHANGED role

(* WaitGroup.JoinGeneration(dedupKey), first iteration or a non-probe loop turn *)
JoinGeneration(r) ==
  LET k == KeyOf[r] IN
  /\ pc[r] = "join"
  /\ ~(prev[r] # 0 /\ k \in Probe)
  /\ IF groups[k] # 0
       THEN /\ BecomeFollower(r, groups[k])
            /\ UNCHANGED wgVars
       ELSE /\ NewGen(k, r)
            /\ BecomeLeader(r, ngen + 1)
            /\ UNCHANGED <<gDone, gTO, gNext, gDoneBy>>
  /\ UNCHANGED <<storeVars, prev, regroups, arrival, cx, wrVars, downs, now>>

(* WaitGroup.Regroup(dedupKey, previousGeneration); failureProbeRegroups++ *)
Regroup(r) ==
  LET k == KeyOf[r]  p == prev[r] IN
  /\ pc[r] = "join"
  /\ p # 0 /\ k \in Probe
  /\ regroups[r] < MaxRegroups
  /\ regroups' = [regroups EXCEPT ![r] = @ + 1]
  /\ IF gTO[p] /\ Bug # "regroupTombstone"   \* tombstone: never replaced, never linked
       THEN /\ BecomeFollower(r, p)
            /\ UNCHANGED wgVars
       ELSE IF gNext[p] # 0          \* cohort already linked to its next generation
       THEN /\ BecomeFollower(r, gNext[p])
            /\ UNCHANGED wgVars
       ELSE IF groups[k] # 0 /\ groups[k] # p
       THEN /\ gNext' = [gNext EXCEPT ![p] = groups[k]]
            /\ BecomeFollower(r, groups[k])
            /\ UNCHANGED <<groups, ngen, gKey, gDone, gTO, gLeader, gBorn, gDoneBy>>
       ELSE /\ NewGen(k, r)
            /\ gNext' = [gNext EXCEPT ![p] = ngen + 1]
            /\ BecomeLeader(r, ngen + 1)
            /\ UNCHANGED <<gDone, gTO, gDoneBy>>
  /\ UNCHANGED <<storeVars, prev, arrival, cx, wrVars, downs, now>>

(* the loop head `failureProbeRegroups >= maxFailureProbeRegroups`: shed locally *)
ProbeLimit(r) ==
  /\ pc[r] = "join"
  /\ prev[r] # 0 /\ KeyOf[r] \in Probe
  /\ regroups[r] >= MaxRegroups
  /\ Write(r, "probelimit")
  /\ pc' = [pc EXCEPT ![r] = "fin"]
  /\ UNCHANGED <<wgVars, storeVars, role, mygen, prev, regroups, arrival, cx, downs, now>>

(* WaitGroup.DoneGeneration(leaderKey, leaderGeneration) -- deferred by the leader only *)
DoneGeneration(r) ==
  LET g == mygen[r] IN
  /\ pc[r] = "exit"
  /\ gDone' = [gDone EXCEPT ![g] = TRUE]          \* cancel(); Err() keeps DeadlineExceeded if it had expired
  /\ gDoneBy' = [gDoneBy EXCEPT ![g] = r]
  /\ groups' = [groups EXCEPT ![gKey[g]] = IF @ = g THEN 0 ELSE @]   \* identity check
  /\ pc' = [pc EXCEPT ![r] = "fin"]
  /\ UNCHANGED <<ngen, gKey, gTO, gNext, gLeader, gBorn, storeVars, role, mygen, prev, regroups,
                 arrival, cx, wrVars, downs, now>>

(* the generation context's deadline fires: Done closes, Err = DeadlineExceeded *)
TimeoutDue(g) == EnvOn /\ g <= ngen /\ ~gDone[g] /\ (Timed => now >= gBorn[g] + W)
Timeout(g) ==
  /\ TimeoutDue(g)
  /\ gDone' = [gDone EXCEPT ![g] = TRUE]
  /\ gTO' = [gTO EXCEPT ![g] = TRUE]
  /\ UNCHANGED <<groups, ngen, gKey, gNext, gLeader, gBorn, gDoneBy, storeVars, reqVars, cx, wrVars, downs, now>>

(* ---------------------------- request context --------------------------- *)
Active(r) == pc[r] \notin {"idle", "fin"}
DeadlineDue(r) == EnvOn /\ Active(r) /\ cx[r] = "live" /\ (Timed => now >= arrival[r] + D)
Deadline(r) ==
  /\ DeadlineDue(r)
  /\ cx' = [cx EXCEPT ![r] = "deadline"]
  /\ UNCHANGED <<wgVars, storeVars, reqVars, wrVars, downs, now>>

(* the client goes away (transport canceled) *)
Cancel(r) ==
  /\ EnvOn /\ Active(r) /\ cx[r] = "live" /\ r \notin Internal
  /\ cx' = [cx EXCEPT ![r] = "canceled"]
  /\ UNCHANGED <<wgVars, storeVars, reqVars, wrVars, downs, now>>

(* Cache.stopCanceledRequest: SERVFAIL(timeout) on deadline, silent on cancel *)
StopWrite(r) ==
  IF cx[r] = "deadline" THEN Write(r, "timeout") ELSE UNCHANGED wrVars

(* ----------------------------- Cache.ServeDNS --------------------------- *)
(* arrival + the lookups before the dedup loop *)
FirstLookup(r) ==
  LET k == KeyOf[r] IN
  /\ pc[r] = "idle"
  /\ now <= MaxArrive
  /\ arrival' = [arrival EXCEPT ![r] = now]
  /\ IF cached[k]
       THEN Write(r, "answer") /\ pc' = [pc EXCEPT ![r] = "fin"] /\ UNCHANGED role
       ELSE IF failed[k]
       THEN Write(r, "cachedfail") /\ pc' = [pc EXCEPT ![r] = "fin"] /\ UNCHANGED role
       ELSE IF r \in Internal
       THEN /\ pc' = [pc EXCEPT ![r] = "lead"]          \* skips the join: no generation
            /\ role' = [role EXCEPT ![r] = "fall"]
            /\ UNCHANGED wrVars
       ELSE pc' = [pc EXCEPT ![r] = "join"] /\ UNCHANGED <<role, wrVars>>
  /\ UNCHANGED <<wgVars, storeVars, mygen, prev, regroups, cx, downs, now>>

(* select { generation.Done | ctx.Done } then `EffectiveError(ctx) != nil`:
   cancellation is preferred whenever the request context is finished *)
Wait(r) ==
  /\ pc[r] = "wait"
  /\ gDone[mygen[r]] \/ cx[r] # "live"
  /\ IF cx[r] # "live"
       THEN StopWrite(r) /\ pc' = [pc EXCEPT ![r] = "fin"]
       ELSE pc' = [pc EXCEPT ![r] = "recheck"] /\ UNCHANGED wrVars
  /\ UNCHANGED <<wgVars, storeVars, role, mygen, prev, regroups, arrival, cx, downs, now>>

(* the follower's re-check of the caches and the regroup decision *)
Recheck(r) ==
  LET k == KeyOf[r]  g == mygen[r] IN
  /\ pc[r] = "recheck"
  /\ IF cached[k]
       THEN Write(r, "answer") /\ pc' = [pc EXCEPT ![r] = "fin"] /\ UNCHANGED <<role, prev>>
       ELSE IF failed[k]
       THEN Write(r, "cachedfail") /\ pc' = [pc EXCEPT ![r] = "fin"] /\ UNCHANGED <<role, prev>>
       ELSE IF k \in Probe /\ gTO[g] /\ ~Defensive       \* abandoned probe leader stays terminal
       THEN Write(r, "probelimit") /\ pc' = [pc EXCEPT ![r] = "fin"] /\ UNCHANGED <<role, prev>>
       ELSE IF k \notin Probe                            \* ordinary follower: resolve by itself
       THEN /\ pc' = [pc EXCEPT ![r] = "lead"]
            /\ role' = [role EXCEPT ![r] = "fall"]
            /\ UNCHANGED <<prev, wrVars>>
       ELSE /\ prev' = [prev EXCEPT ![r] = g]            \* re-elect one probe leader
            /\ pc' = [pc EXCEPT ![r] = "join"]
            /\ UNCHANGED <<role, wrVars>>
  /\ UNCHANGED <<wgVars, storeVars, mygen, regroups, arrival, cx, downs, now>>

Finish(r) == IF role[r] = "leader" THEN "exit" ELSE "fin"

(* `if contextutil.EffectiveError(ctx) != nil { stopCanceledRequest }` then ch.Next *)
LeadCheck(r) ==
  /\ pc[r] = "lead"
  /\ IF cx[r] # "live"
       THEN StopWrite(r) /\ pc' = [pc EXCEPT ![r] = Finish(r)] /\ UNCHANGED downs
       ELSE /\ pc' = [pc EXCEPT ![r] = "down"]
            /\ downs' = [downs EXCEPT ![IF role[r] = "leader" THEN mygen[r] ELSE 0] = @ + 1]
            /\ UNCHANGED wrVars
  /\ UNCHANGED <<wgVars, storeVars, role, mygen, prev, regroups, arrival, cx, now>>

Outcomes == {"fill", "failShared", "failLocal"}

(* the lower handlers return.  cache.ResponseWriter.WriteMsg stores an answer,
   records a failure only when cacheableResolutionFailure holds (context not
   finished, not request-local), and forwards the reply to the request's writer *)
Downstream(r, o, dup) ==
  LET k == KeyOf[r]  n == IF dup THEN 2 ELSE 1 IN
  /\ pc[r] = "down"
  /\ o \in Outcomes
  /\ dup \in (IF DupWrite THEN BOOLEAN ELSE {FALSE})
  /\ cx[r] # "live" => o = "failLocal"       \* a late downstream reports its own deadline/cancel
  /\ CASE o = "fill" ->
            /\ cached' = [cached EXCEPT ![k] = TRUE]
            /\ failed' = [failed EXCEPT ![k] = FALSE]
            /\ failedBy' = [failedBy EXCEPT ![k] = "none"]
            /\ WriteN(r, "answer", n)
       [] o = "failShared" ->
            /\ failed' = [failed EXCEPT ![k] = TRUE]
            /\ failedBy' = [failedBy EXCEPT ![k] = "shared"]
            /\ UNCHANGED cached
            /\ WriteN(r, "servfail", n)
       [] o = "failLocal" ->
            /\ IF Bug = "recordLocal" /\ cx[r] = "live"
                 THEN /\ failed' = [failed EXCEPT ![k] = TRUE]
                      /\ failedBy' = [failedBy EXCEPT ![k] = "local"]
                      /\ UNCHANGED cached
                 ELSE UNCHANGED storeVars
            /\ IF cx[r] = "canceled" THEN UNCHANGED wrVars ELSE WriteN(r, "local", n)
  /\ pc' = [pc EXCEPT ![r] = Finish(r)]
  /\ UNCHANGED <<wgVars, role, mygen, prev, regroups, arrival, cx, downs, now>>

(* ---------------------------------- time -------------------------------- *)
(* zero-time steps: everything a request does by itself except sitting in
   a live downstream, sitting in a wait that is not ready, and arriving *)
ZeroTimeEnabled ==
  \/ \E r \in Reqs :
       \/ pc[r] \in {"join", "recheck", "lead", "exit"}
       \/ pc[r] = "wait" /\ (gDone[mygen[r]] \/ cx[r] # "live")
       \/ pc[r] = "down" /\ cx[r] # "live"
       \/ DeadlineDue(r)
  \/ \E g \in Gens : TimeoutDue(g)
(* (only evaluated with Timed = TRUE) *)

Tick ==
  /\ Timed
  /\ now < MaxT
  /\ Urgent => ~ZeroTimeEnabled
  /\ now' = now + 1
  /\ UNCHANGED <<wgVars, storeVars, reqVars, cx, wrVars, downs>>

ReqStep(r) ==
  \/ FirstLookup(r) \/ JoinGeneration(r) \/ Regroup(r) \/ ProbeLimit(r) \/ Wait(r)
  \/ Recheck(r) \/ LeadCheck(r) \/ DoneGeneration(r)
  \/ \E o \in Outcomes, dup \in BOOLEAN : Downstream(r, o, dup)

Next ==
  \/ \E r \in Reqs : ReqStep(r) \/ Deadline(r) \/ Cancel(r)
  \/ \E g \in Gens : Timeout(g)
  \/ Tick

(* every request goroutine keeps running; a downstream always returns
   (its own bound is the lower layers' obligation); the clock is fair *)
Fairness ==
  /\ \A r \in Reqs : WF_vars(ReqStep(r) /\ pc[r] # "idle")
Spec == Init /\ [][Next]_vars /\ Fairness

(* -------------------------------- properties --------------------------- *)
TypeOK ==
  /\ groups \in [Keys -> 0..MaxGen]
  /\ ngen \in 0..MaxGen
  /\ pc \in [Reqs -> PCs]
  /\ role \in [Reqs -> {"none", "leader", "fall"}]
  /\ mygen \in [Reqs -> 0..MaxGen]
  /\ cx \in [Reqs -> {"live", "deadline", "canceled"}]
  /\ sent \in [Reqs -> 0..4]
  /\ reply \in [Reqs -> ReplyKinds]
  /\ now \in 0..MaxT

(* never two replies for one query *)
AtMostOneReply == \A r \in Reqs : sent[r] <= 1

(* exactly one once the request is over, unless the client went away *)
ExactlyOneWhenFinished ==
  \A r \in Reqs : pc[r] = "fin" => (sent[r] = 1 \/ (cx[r] = "canceled" /\ sent[r] = 0))

Leading(r) == role[r] = "leader" /\ pc[r] \in {"lead", "down", "exit"}

(* one leader per generation; per key at most one leader whose generation is
   still the registered one; downstream runs at most once per generation *)
OneLeaderPerGeneration ==
  /\ \A g \in Gens : g <= ngen =>
        /\ Cardinality({r \in Reqs : Leading(r) /\ mygen[r] = g}) <= 1
        /\ \A r \in Reqs : (Leading(r) /\ mygen[r] = g) => gLeader[g] = r
        /\ downs[g] <= 1
  /\ \A k \in Keys :
        Cardinality({r \in Reqs : Leading(r) /\ KeyOf[r] = k /\ groups[k] = mygen[r]}) <= 1

(* only the creator of a generation completes it; a generation that is done
   without having timed out was completed by its leader, who is past downstream *)
FollowersNeverDone ==
  \A g \in Gens : g <= ngen =>
     /\ gDoneBy[g] \in {0, gLeader[g]}
     /\ (gDone[g] /\ ~gTO[g]) => gDoneBy[g] = gLeader[g]

(* a timed-out generation stays registered until its own leader's Done
   arrives, is never linked to a successor and never replaced *)
TimedOutGenerationIsTombstone ==
  \A g \in Gens : (g <= ngen /\ gTO[g]) =>
     /\ gDoneBy[g] = 0 => groups[gKey[g]] = g
TombstoneNeverLinked ==
  [][\A g \in Gens : gTO[g] => gNext'[g] = gNext[g]]_vars

(* a leader's request-local failure reaches only that leader's client:
   it is never turned into shared failure state, and a "local" reply is only
   ever the downstream result of the request that receives it *)
FailureIsPrivate ==
  /\ \A k \in Keys : failedBy[k] # "local"
  /\ \A k \in Keys : failed[k] => failedBy[k] = "shared"
LocalOnlyFromOwnDownstream ==
  [][\A r \in Reqs : (reply[r] # "local" /\ reply'[r] = "local") => pc[r] = "down"]_vars
CachedFailNeedsSharedFailure ==
  [][\A r \in Reqs : (reply[r] # "cachedfail" /\ reply'[r] = "cachedfail")
        => (failed[KeyOf[r]] /\ failedBy[KeyOf[r]] = "shared")]_vars

(* an internal sub-query never joins or waits *)
InternalSkipsJoin == \A r \in Internal : pc[r] \notin {"join", "wait", "recheck", "exit"} /\ mygen[r] = 0

(* regroup bound *)
RegroupBound == \A r \in Reqs : regroups[r] <= MaxRegroups

(* in time (meaningful with Urgent = TRUE): a request that is still open has
   not outlived its deadline *)
InTime == Timed => \A r \in Reqs : Active(r) => now <= arrival[r] + D

(* liveness: every admitted request is eventually answered or its client is gone *)
Answered(r) == pc[r] = "fin" /\ (sent[r] = 1 \/ cx[r] = "canceled")
EventuallyAnswered == \A r \in Reqs : (pc[r] # "idle") ~> Answered(r)
(* no generation is left registered once everybody finished *)
Quiescent == (\A r \in Reqs : pc[r] = "fin") => \A k \in Keys : groups[k] = 0
=============================================================================
