---------------------------- MODULE Trace_Dedup ----------------------------
(***************************************************************************)
(* Validation of executions recorded from the real Cache.ServeDNS dedup    *)
(* loop (harness/c11/dedup_test.go) against Dedup.tla.  One NDJSON line    *)
(* per executed action, in the real order (all goroutines are held or      *)
(* parked while a line is taken).  A goroutine released from a harness     *)
(* gate may perform several actions before it stops again; only the last   *)
(* line of such a burst carries the observed projection (o = 1): the       *)
(* registered generation per key, closed Done channels, timed-out          *)
(* generations, next links, replies on the wire per client, reply kind,    *)
(* control point.  Many runs are concatenated with Reset lines.            *)
(***************************************************************************)
EXTENDS MC_Dedup, Json, IOUtils

TraceLog == ndJsonDeserialize(IOEnv.TRACE_FILE)

VARIABLE l
tvars == <<vars, l>>

TraceInit == Init /\ l = 1

Line == TraceLog[l]
IsEv(e) == l <= Len(TraceLog) /\ Line.ev = e /\ l' = l + 1

ObsOK ==
  Line.o = 1 =>
    /\ \A k \in Keys : groups'[k] = Line.groups[k]
    /\ ngen' = Line.ngen
    /\ \A g \in Gens : gDone'[g] = Line.done[g] /\ gTO'[g] = Line.to[g] /\ gNext'[g] = Line.next[g]
    /\ \A r \in Reqs : sent'[r] = Line.sent[r] /\ reply'[r] = Line.reply[r] /\ pc'[r] = Line.pc[r]

TReset ==
  /\ IsEv("Reset")
  /\ groups' = [k \in Keys |-> 0]
  /\ ngen' = 0
  /\ gKey' = [g \in Gens |-> CHOOSE k \in Keys : TRUE]
  /\ gDone' = [g \in Gens |-> FALSE]
  /\ gTO' = [g \in Gens |-> FALSE]
  /\ gNext' = [g \in Gens |-> 0]
  /\ gLeader' = [g \in Gens |-> 0]
  /\ gBorn' = [g \in Gens |-> 0]
  /\ gDoneBy' = [g \in Gens |-> 0]
  /\ cached' = [k \in Keys |-> FALSE]
  /\ failed' = [k \in Keys |-> FALSE]
  /\ failedBy' = [k \in Keys |-> "none"]
  /\ pc' = [r \in Reqs |-> "idle"]
  /\ role' = [r \in Reqs |-> "none"]
  /\ mygen' = [r \in Reqs |-> 0]
  /\ prev' = [r \in Reqs |-> 0]
  /\ regroups' = [r \in Reqs |-> 0]
  /\ arrival' = [r \in Reqs |-> 0]
  /\ cx' = [r \in Reqs |-> "live"]
  /\ wflag' = [r \in Reqs |-> FALSE]
  /\ sent' = [r \in Reqs |-> 0]
  /\ reply' = [r \in Reqs |-> "none"]
  /\ downs' = [g \in 0..MaxGen |-> 0]
  /\ now' = 0

TStep ==
  \/ IsEv("FirstLookup") /\ FirstLookup(Line.r)
  \/ IsEv("JoinGeneration") /\ JoinGeneration(Line.r)
  \/ IsEv("Regroup") /\ Regroup(Line.r)
  \/ IsEv("ProbeLimit") /\ ProbeLimit(Line.r)
  \/ IsEv("Wait") /\ Wait(Line.r)
  \/ IsEv("Recheck") /\ Recheck(Line.r)
  \/ IsEv("LeadCheck") /\ LeadCheck(Line.r)
  \/ IsEv("Downstream") /\ Downstream(Line.r, Line.out, Line.dup)
  \/ IsEv("DoneGeneration") /\ DoneGeneration(Line.r)
  \/ IsEv("Timeout") /\ Timeout(Line.g)
  \/ IsEv("Deadline") /\ Deadline(Line.r)
  \/ IsEv("Cancel") /\ Cancel(Line.r)

TraceNext == TReset \/ (TStep /\ ObsOK)
TraceSpec == TraceInit /\ [][TraceNext]_tvars

TraceAccepted == TLCGet("stats").diameter - 1 = Len(TraceLog)
=============================================================================
