CONSTANTS
  Reqs = {1, 2, 3}
  Keys = {1}
  KeyOf <- KeyOfSame
  Internal = {}
  Probe = {1}
  MaxGen = 3
  MaxRegroups = 1
  D = 2
  W = 3
  MaxT = 0
  MaxArrive = 0
  Timed = FALSE
  Urgent = FALSE
  DupWrite = TRUE
  WriterGuard = TRUE
  Defensive = FALSE
  EnvOn = TRUE
  Bug = "none"
SPECIFICATION TraceSpec
INVARIANTS TypeOK AtMostOneReply ExactlyOneWhenFinished OneLeaderPerGeneration FollowersNeverDone
  TimedOutGenerationIsTombstone FailureIsPrivate InternalSkipsJoin RegroupBound Quiescent
POSTCONDITION TraceAccepted
CHECK_DEADLOCK FALSE
