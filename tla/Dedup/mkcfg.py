#!/usr/bin/env python3
"""Regenerates the TLC configs of Dedup (run in this directory).  The .cfg files are
what the check uses; this script only documents how they were produced."""
INV = ("TypeOK AtMostOneReply ExactlyOneWhenFinished OneLeaderPerGeneration FollowersNeverDone\n"
       "  TimedOutGenerationIsTombstone FailureIsPrivate InternalSkipsJoin RegroupBound Quiescent")
ACT = "TombstoneNeverLinked LocalOnlyFromOwnDownstream CachedFailNeedsSharedFailure"

def consts(reqs, keys, keyof, internal, probe, maxgen, D=2, W=3, maxT=0, maxArr=0, timed=False,
           urgent=False, dup=True, guard=True, defensive=False, env=True, bug="none"):
    b = lambda x: "TRUE" if x else "FALSE"
    return ("CONSTANTS\n  Reqs = %s\n  Keys = %s\n  KeyOf <- %s\n  Internal = %s\n  Probe = %s\n  MaxGen = %d\n"
            "  MaxRegroups = 1\n  D = %d\n  W = %d\n  MaxT = %d\n  MaxArrive = %d\n  Timed = %s\n  Urgent = %s\n"
            "  DupWrite = %s\n  WriterGuard = %s\n  Defensive = %s\n  EnvOn = %s\n  Bug = \"%s\"\n" % (
                reqs, keys, keyof, internal, probe, maxgen, D, W, maxT, maxArr, b(timed), b(urgent), b(dup), b(guard), b(defensive), b(env), bug))

def mc(name, c, inv="", props=""):
    open("MC_%s.cfg" % name, "w").write(
        c + "SPECIFICATION Spec\nINVARIANTS %s %s\nPROPERTIES %s %s\nCHECK_DEADLOCK FALSE\n" % (INV, inv, ACT, props))

def sim(name, c):
    open("Sim_%s.cfg" % name, "w").write(c + "INIT Init\nNEXT Next\nCHECK_DEADLOCK FALSE\n")

def trace(name, c):
    open("Trace_%s.cfg" % name, "w").write(
        c + "SPECIFICATION TraceSpec\nINVARIANTS %s\nPOSTCONDITION TraceAccepted\nCHECK_DEADLOCK FALSE\n" % INV)

R3, R2, R4 = "{1, 2, 3}", "{1, 2}", "{1, 2, 3, 4}"
ORD = dict(reqs=R3, keys="{1}", keyof="KeyOfSame", internal="{3}", probe="{}", maxgen=2)
PROBE = dict(reqs=R3, keys="{1}", keyof="KeyOfSame", internal="{}", probe="{1}", maxgen=3)
SPLIT = dict(reqs=R3, keys="{1, 2}", keyof="KeyOfSplit", internal="{}", probe="{1}", maxgen=3)
PROBE2 = dict(reqs=R2, keys="{1}", keyof="KeyOfSame", internal="{}", probe="{1}", maxgen=2)
ORD2 = dict(reqs=R2, keys="{1}", keyof="KeyOfSame", internal="{}", probe="{}", maxgen=2)
FOUR = dict(reqs=R4, keys="{1, 2}", keyof="KeyOf4", internal="{}", probe="{1}", maxgen=4)
FOURI = dict(reqs=R4, keys="{1}", keyof="KeyOf4Same", internal="{4}", probe="{1}", maxgen=3)

# safety under every timing (no clock)
mc("Ord", consts(**ORD))
mc("Probe", consts(**PROBE))
mc("Probe2", consts(**PROBE2))
mc("Split", consts(**SPLIT, dup=False))
mc("Defensive", consts(**PROBE, dup=False, defensive=True))
mc("Four", consts(**FOUR, dup=False))
mc("FourI", consts(**FOURI, dup=False))
# liveness under weak fairness
mc("LiveOrd2", consts(**ORD2, dup=False), props="EventuallyAnswered")
mc("LiveProbe2", consts(**PROBE2, dup=False), props="EventuallyAnswered")
mc("LiveOrd", consts(**ORD, dup=False), props="EventuallyAnswered")
mc("LiveProbe", consts(**PROBE, dup=False), props="EventuallyAnswered")
# bounded time (clock, zero-time steps first): D < W and W < D
mc("TimeDW", consts(**PROBE, D=2, W=3, maxT=6, maxArr=2, timed=True, urgent=True, dup=False), inv="InTime")
mc("TimeWD", consts(**ORD, D=3, W=2, maxT=6, maxArr=2, timed=True, urgent=True, dup=False), inv="InTime")
mc("TimeDW2", consts(**PROBE2, D=2, W=3, maxT=6, maxArr=2, timed=True, urgent=True, dup=False), inv="InTime")
mc("TimeWD2", consts(**ORD2, D=3, W=2, maxT=6, maxArr=2, timed=True, urgent=True, dup=False), inv="InTime")
# the writer guard is what AtMostOneReply rests on: TLC must find the violation without it
mc("NoGuard", consts(**ORD2, guard=False))
mc("NegLocal", consts(**ORD2, dup=False, bug="recordLocal"))
mc("NegTombstone", consts(**PROBE, dup=False, defensive=True, bug="regroupTombstone"))
# behaviours for the replay drivers
for name, c in (("Ord", ORD), ("Probe", PROBE), ("Split", SPLIT), ("Four", FOUR), ("FourI", FOURI)):
    sim(name, consts(**c))
    trace(name, consts(**c))
sim("OrdT", consts(**ORD, maxT=6, maxArr=2, timed=True))
sim("ProbeT", consts(**PROBE, maxT=6, maxArr=2, timed=True))
sim("Defensive", consts(**PROBE, defensive=True))
sim("ProbeQ", consts(**PROBE, env=False))
sim("FourQ", consts(**FOUR, env=False))
