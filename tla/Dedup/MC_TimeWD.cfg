CONSTANTS
  Reqs = {1, 2, 3}
  Keys = {1}
  KeyOf <- KeyOfSame
  Internal = {3}
  Probe = {}
  MaxGen = 2
  MaxRegroups = 1
  D = 3
  W = 2
  MaxT = 6
  MaxArrive = 2
  Timed = TRUE
  Urgent = TRUE
  DupWrite = FALSE
  WriterGuard = TRUE
  Defensive = FALSE
  EnvOn = TRUE
  Bug = "none"
SPECIFICATION Spec
INVARIANTS TypeOK AtMostOneReply ExactlyOneWhenFinished OneLeaderPerGeneration FollowersNeverDone
  TimedOutGenerationIsTombstone FailureIsPrivate InternalSkipsJoin RegroupBound Quiescent InTime
PROPERTIES TombstoneNeverLinked LocalOnlyFromOwnDownstream CachedFailNeedsSharedFailure 
CHECK_DEADLOCK FALSE
