CONSTANTS
  Reqs = {1, 2}
  Keys = {1}
  KeyOf <- KeyOfSame
  Internal = {}
  Probe = {}
  MaxGen = 2
  MaxRegroups = 1
  D = 2
  W = 3
  MaxT = 0
  MaxArrive = 0
  Timed = FALSE
  Urgent = FALSE
  DupWrite = FALSE
  WriterGuard = TRUE
  Defensive = FALSE
  EnvOn = TRUE
  Bug = "none"
SPECIFICATION Spec
INVARIANTS TypeOK AtMostOneReply ExactlyOneWhenFinished OneLeaderPerGeneration FollowersNeverDone
  TimedOutGenerationIsTombstone FailureIsPrivate InternalSkipsJoin RegroupBound Quiescent 
PROPERTIES TombstoneNeverLinked LocalOnlyFromOwnDownstream CachedFailNeedsSharedFailure EventuallyAnswered
CHECK_DEADLOCK FALSE
