CONSTANTS
  Reqs = {1, 2, 3, 4}
  Keys = {1, 2}
  KeyOf <- KeyOf4
  Internal = {}
  Probe = {1}
  MaxGen = 4
  MaxRegroups = 1
  D = 2
  W = 3
  MaxT = 0
  MaxArrive = 0
  Timed = FALSE
  Urgent = FALSE
  DupWrite = TRUE
  WriterGuard = TRUE
  Defensive = FALSE
  EnvOn = TRUE
  Bug = "none"
INIT Init
NEXT Next
CHECK_DEADLOCK FALSE
