#!/usr/bin/env python3
"""Regenerates the TLC configs of Ledger (run in this directory)."""
INV = ("TypeOK AcceptedNeverExceedsCap ShadowNeverRejects ShadowRecordsCrossing OffCountsNothing RequiredRejectionLatches\n"
       "  BestEffortDoesNotLatch LatchedIsExhausted RefsOK PublishOnce PublishedWhenQuiescent")
ACT = "FirstRejectionLatched ClosedLedgerRejects ClosedIsFinal NoRetainAfterPublish"

ALL = '{"debit", "local", "retain", "finish"}'

def consts(procs, kinds, cap, mode, lazy, maxops, maxheld=1, opset=ALL, atomic=False, gtbug=False):
    return ("CONSTANTS\n  Procs = %s\n  Kinds = %s\n  LKinds = {\"key\"}\n  Cap <- %s\n  Mode = \"%s\"\n  Lazy = %s\n"
            "  MaxOps = %d\n  MaxHeld = %d\n  OpSet = %s\n  Atomic = %s\n  GtBug = %s\n" % (
                procs, kinds, cap, mode, "TRUE" if lazy else "FALSE", maxops, maxheld, opset,
                "TRUE" if atomic else "FALSE", "TRUE" if gtbug else "FALSE"))

def mc(name, c):
    open("MC_%s.cfg" % name, "w").write(c + "SPECIFICATION Spec\nINVARIANTS %s\nPROPERTIES %s\nCHECK_DEADLOCK FALSE\n" % (INV, ACT))

def sim(name, c):
    open("Sim_%s.cfg" % name, "w").write(c + "INIT Init\nNEXT Next\nCHECK_DEADLOCK FALSE\n")

def trace(name, c):
    open("Trace_%s.cfg" % name, "w").write(
        c + "SPECIFICATION TraceSpec\nINVARIANTS %s\nCONSTRAINT HighWater\nPOSTCONDITION TraceAccepted\nCHECK_DEADLOCK FALSE\n" % INV)

K2, K1 = '{"out", "int"}', '{"out"}'
DEBIT = '{"debit"}'
LOCAL = '{"debit", "local"}'
LIFE = '{"debit", "retain", "finish"}'
for mode in ("enforce", "shadow", "off"):
    M = mode.capitalize()
    # three concurrent debitors on a cap-1 counter + local limits: the CAS loop and the latch
    mc("%sDebit3" % M, consts("{1, 2, 3}", K1, "MCCap1", mode, True, 2, 0, DEBIT))
    mc("%sLocal2" % M, consts("{1, 2}", K1, "MCCap1", mode, True, 2, 0, LOCAL))
    # lifecycle: lazy pin, retain / release / finish racing debits
    mc("%sLife2" % M, consts("{1, 2}", K1, "MCCap1", mode, True, 3, 1, LIFE))
    # everything, two processes, two kinds (thorough)
    mc("%sAll2" % M, consts("{1, 2}", K2, "MCCap", mode, True, 2))
    mc("%sLife3" % M, consts("{1, 2, 3}", K1, "MCCap1", mode, True, 2, 1, LIFE))
    mc("%sDebit3x3" % M, consts("{1, 2, 3}", K1 if mode == "enforce" else K2, "MCCap1" if mode == "enforce" else "MCCap",
                                 mode, True, 3, 0, DEBIT))
mc("EnforceDirect2", consts("{1, 2}", K2, "MCCap", "enforce", False, 2))
mc("ShadowDirect2", consts("{1, 2}", K2, "MCCap", "shadow", False, 2))
mc("NegGt", consts("{1, 2}", K1, "MCCap1", "enforce", True, 2, 0, DEBIT, gtbug=True))
# sequential call orders for the API replay; concurrent histories for the trace validation
for mode in ("enforce", "shadow", "off"):
    sim(mode.capitalize(), consts("{1, 2, 3}", K2, "MCCap", mode, True, 6, 2, atomic=True))
    trace(mode.capitalize(), consts("{1, 2, 3, 4}", K2, "MCCap", mode, True, 1000, 1000))
sim("EnforceDirect", consts("{1, 2, 3}", K2, "MCCap", "enforce", False, 6, 2, atomic=True))
sim("ShadowDirect", consts("{1, 2, 3}", K2, "MCCap", "shadow", False, 6, 2, atomic=True))
trace("EnforceDirect", consts("{1, 2, 3, 4}", K2, "MCCap", "enforce", False, 1000, 1000))
trace("ShadowDirect", consts("{1, 2, 3, 4}", K2, "MCCap", "shadow", False, 1000, 1000))
