#!/usr/bin/env python3
"""Regenerates the TLC configs of Ledger (run in this directory)."""
INV = ("TypeOK AcceptedNeverExceedsCap ShadowNeverRejects ShadowRecordsCrossing OffCountsNothing RequiredRejectionLatches\n"
       "  BestEffortDoesNotLatch LatchedIsExhausted RefsOK PublishOnce PublishedWhenQuiescent")
ACT = "FirstRejectionLatched ClosedLedgerRejects ClosedIsFinal NoRetainAfterPublish"

def consts(procs, kinds, cap, mode, lazy, maxops, maxheld=1):
    return ("CONSTANTS\n  Procs = %s\n  Kinds = %s\n  LKinds = {\"key\"}\n  Cap <- %s\n  Mode = \"%s\"\n  Lazy = %s\n"
            "  MaxOps = %d\n  MaxHeld = %d\n" % (procs, kinds, cap, mode, "TRUE" if lazy else "FALSE", maxops, maxheld))

def mc(name, c):
    open("MC_%s.cfg" % name, "w").write(c + "SPECIFICATION Spec\nINVARIANTS %s\nPROPERTIES %s\nCHECK_DEADLOCK FALSE\n" % (INV, ACT))

def sim(name, c):
    open("Sim_%s.cfg" % name, "w").write(c + "INIT Init\nNEXT Next\nCHECK_DEADLOCK FALSE\n")

def trace(name, c):
    open("Trace_%s.cfg" % name, "w").write(
        c + "SPECIFICATION TraceSpec\nINVARIANTS %s\nPROPERTIES %s\nPOSTCONDITION TraceAccepted\nCHECK_DEADLOCK FALSE\n" % (INV, ACT))

K2, K1 = '{"out", "int"}', '{"out"}'
for mode in ("enforce", "shadow", "off"):
    mc("%s2" % mode.capitalize(), consts("{1, 2}", K2, "MCCap", mode, True, 3))
    mc("%s3" % mode.capitalize(), consts("{1, 2, 3}", K1, "MCCap1", mode, True, 3))
mc("EnforceDirect2", consts("{1, 2}", K2, "MCCap", "enforce", False, 3))
mc("ShadowDirect2", consts("{1, 2}", K2, "MCCap", "shadow", False, 3))
mc("Enforce3x4", consts("{1, 2, 3}", K2, "MCCap", "enforce", True, 4, 2))
mc("Shadow3x4", consts("{1, 2, 3}", K2, "MCCap", "shadow", True, 4, 2))
for mode in ("enforce", "shadow", "off"):
    sim(mode.capitalize(), consts("{1, 2, 3}", K2, "MCCap", mode, True, 5, 2))
    trace(mode.capitalize(), consts("{1, 2, 3, 4}", K2, "MCCap", mode, True, 1000, 1000))
sim("EnforceDirect", consts("{1, 2, 3}", K2, "MCCap", "enforce", False, 5, 2))
sim("ShadowDirect", consts("{1, 2, 3}", K2, "MCCap", "shadow", False, 5, 2))
trace("EnforceDirect", consts("{1, 2, 3, 4}", K2, "MCCap", "enforce", False, 1000, 1000))
trace("ShadowDirect", consts("{1, 2, 3, 4}", K2, "MCCap", "shadow", False, 1000, 1000))
