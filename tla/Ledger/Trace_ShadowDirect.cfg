CONSTANTS
  Procs = {1, 2, 3, 4}
  Kinds = {"out", "int"}
  LKinds = {"key"}
  Cap <- MCCap
  Mode = "shadow"
  Lazy = FALSE
  MaxOps = 1000
  MaxHeld = 1000
  OpSet = {"debit", "local", "retain", "finish"}
  Atomic = FALSE
  GtBug = FALSE
SPECIFICATION TraceSpec
INVARIANTS TypeOK AcceptedNeverExceedsCap ShadowNeverRejects ShadowRecordsCrossing OffCountsNothing RequiredRejectionLatches
  BestEffortDoesNotLatch LatchedIsExhausted RefsOK PublishOnce PublishedWhenQuiescent
CONSTRAINT HighWater
POSTCONDITION TraceAccepted
CHECK_DEADLOCK FALSE
