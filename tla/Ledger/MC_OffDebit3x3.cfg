CONSTANTS
  Procs = {1, 2, 3}
  Kinds = {"out", "int"}
  LKinds = {"key"}
  Cap <- MCCap
  Mode = "off"
  Lazy = TRUE
  MaxOps = 3
  MaxHeld = 0
  OpSet = {"debit"}
  Atomic = FALSE
  GtBug = FALSE
SPECIFICATION Spec
INVARIANTS TypeOK AcceptedNeverExceedsCap ShadowNeverRejects ShadowRecordsCrossing OffCountsNothing RequiredRejectionLatches
  BestEffortDoesNotLatch LatchedIsExhausted RefsOK PublishOnce PublishedWhenQuiescent
PROPERTIES FirstRejectionLatched ClosedLedgerRejects ClosedIsFinal NoRetainAfterPublish
CHECK_DEADLOCK FALSE
