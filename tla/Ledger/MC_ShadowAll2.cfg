CONSTANTS
  Procs = {1, 2}
  Kinds = {"out", "int"}
  LKinds = {"key"}
  Cap <- MCCap
  Mode = "shadow"
  Lazy = TRUE
  MaxOps = 2
  MaxHeld = 1
  OpSet = {"debit", "local", "retain", "finish"}
  Atomic = FALSE
  GtBug = FALSE
SPECIFICATION Spec
INVARIANTS TypeOK AcceptedNeverExceedsCap ShadowNeverRejects ShadowRecordsCrossing OffCountsNothing RequiredRejectionLatches
  BestEffortDoesNotLatch LatchedIsExhausted RefsOK PublishOnce PublishedWhenQuiescent
PROPERTIES FirstRejectionLatched ClosedLedgerRejects ClosedIsFinal NoRetainAfterPublish
CHECK_DEADLOCK FALSE
