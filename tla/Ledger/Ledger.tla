------------------------------- MODULE Ledger -------------------------------
(***************************************************************************)
(* C12 core: middleware.RecursionWorkLedger (recursion_work.go) -- the      *)
(* request-tree work ledger of the recursion firewall -- together with the  *)
(* lazy owner pin of the outer Chain (pending -> ledger | closed).          *)
(*                                                                         *)
(* Concurrent processes (parallel lookups, detached helper jobs, the chain  *)
(* owner) call the API; every atomic operation of the code is one action:   *)
(*   debit (enforce):  Load: used := counter.Load(); used >= limit ->       *)
(*                     markExhausted + limit error; else                    *)
(*                     CAS: counter.CompareAndSwap(used, used+1) or retry   *)
(*   debit (shadow):   counter.Add(1); == limit+1 -> markExhausted(no latch)*)
(*   markExhausted:    exhausted.Or(bit); then first.CompareAndSwap(0, k+1) *)
(*                     when the rejection latches (required work)           *)
(*   CheckLocal/Reject per-object limits without a counter                  *)
(*   Retain:           refs.Load(); 0 -> refused; CAS(refs, refs+1)         *)
(*   release:          refs.Add(-1); 0 -> finished.CAS(false,true); publish *)
(*   finish:           rootState.CAS(live, rootDone); release               *)
(*   lazy owner:       pin pending -> ledger on first use / -> closed at    *)
(*                     the end of a request that did no recursive work      *)
(*                     (both under the carrier's pin lock: one action)      *)
(* Every call is an invocation (XStart: operands fixed) followed by its     *)
(* entry (XEnter: recursionWorkForUse / RecursionWorkFrom + controlError,   *)
(* the first step that touches shared state), then its atomics.             *)
(*                                                                         *)
(* rootState folds the pin and the ledger's own root word:                  *)
(*   pending (pin, no ledger yet), live, rootDone, closed (pin tombstone).  *)
(* Deliberate abstractions: one ledger per model (the per-request pool      *)
(* reuse of ResponseMeta is out of scope); the metrics publication is one   *)
(* step `Publish`; DNSSEC dimensions are represented by one aggregate and   *)
(* one local kind.                                                          *)
(***************************************************************************)
EXTENDS Integers, FiniteSets, Sequences, TLC

CONSTANTS
  Procs,      \* process ids
  Kinds,      \* aggregate (counted) work kinds
  LKinds,     \* local kinds (CheckLocal / Reject: limit without a counter)
  Cap,        \* [Kinds \cup LKinds -> Nat]
  Mode,       \* "off" | "shadow" | "enforce"
  Lazy,       \* TRUE: the ledger is created on first use behind a pending pin
  OpSet,      \* SUBSET {"debit", "local", "retain", "finish"}: calls the processes may make
  Atomic,     \* TRUE: a call starts only when no other call is in progress (sequential call orders
              \*       for the API replay); FALSE: calls overlap freely
  GtBug,      \* FALSE in the code.  TRUE models `used > limit` in the debit loop (negative config:
              \*       AcceptedNeverExceedsCap must then fail -- the invariant is not vacuous)
  MaxOps,     \* operations per process
  MaxHeld     \* retained tokens a process may hold at once

AllKinds == Kinds \cup LKinds
Enabled == Mode \in {"shadow", "enforce"}

VARIABLES
  rootState,  \* "pending" | "live" | "rootDone" | "closed"
  counter,    \* [Kinds -> Nat]
  exhausted,  \* SUBSET AllKinds
  first,      \* AllKinds \cup {"none"}
  refs,       \* Int
  finished,   \* BOOLEAN
  published,  \* Nat: number of publications (metrics observed)
  pc,         \* [Procs -> control point]
  kind, latch, used,   \* per process: operands of the running call, loaded counter / refs value
  opn,        \* [Procs -> name of the call in progress]
  ops,        \* [Procs -> Nat] operations started
  held,       \* [Procs -> Nat] retained tokens not yet released
  rootTok,    \* 0/1: the root owner's reference is still counted in refs
  \* ghosts (oracle)
  accepted,   \* [Kinds -> Nat] debits that returned nil on a live enforce/shadow ledger
  started,    \* [Kinds -> Nat] debits that reached the counter logic
  limitErrs,  \* Nat: limit errors returned
  reqMarks,   \* Nat: required (latching) rejections that reached markExhausted
  lastRes     \* [Procs -> result of the last completed call]

vars == <<rootState, counter, exhausted, first, refs, finished, published, pc, kind, latch, used, opn, ops, held,
          rootTok, accepted, started, limitErrs, reqMarks, lastRes>>
ledgerVars == <<counter, exhausted, first, refs, finished, published>>
ghostVars == <<accepted, started, limitErrs, reqMarks>>

Results == {"none", "nil", "limit", "canceled", "retained", "refused", "released", "finished", "noop"}
PCs == {"idle", "enter", "sadd", "load", "cas", "markOr", "markFirst", "rload", "rcas", "relDec", "relFin", "publish"}

Init ==
  /\ rootState = IF Lazy THEN "pending" ELSE (IF Enabled THEN "live" ELSE "pending")
  /\ counter = [k \in Kinds |-> 0]
  /\ exhausted = {}
  /\ first = "none"
  /\ refs = IF ~Lazy /\ Enabled THEN 1 ELSE 0
  /\ finished = FALSE
  /\ published = 0
  /\ pc = [p \in Procs |-> "idle"]
  /\ kind = [p \in Procs |-> CHOOSE k \in Kinds : TRUE]
  /\ latch = [p \in Procs |-> FALSE]
  /\ used = [p \in Procs |-> 0]
  /\ opn = [p \in Procs |-> "none"]
  /\ ops = [p \in Procs |-> 0]
  /\ held = [p \in Procs |-> 0]
  /\ rootTok = IF ~Lazy /\ Enabled THEN 1 ELSE 0
  /\ accepted = [k \in Kinds |-> 0]
  /\ started = [k \in Kinds |-> 0]
  /\ limitErrs = 0
  /\ reqMarks = 0
  /\ lastRes = [p \in Procs |-> "none"]

Live == rootState \in {"live", "rootDone"}

Ret(p, res) ==
  /\ pc' = [pc EXCEPT ![p] = "idle"]
  /\ lastRes' = [lastRes EXCEPT ![p] = res]

Begin(p) ==
  /\ pc[p] = "idle"
  /\ Atomic => \A q \in Procs : pc[q] = "idle"
  /\ ops[p] < MaxOps
  /\ ops' = [ops EXCEPT ![p] = @ + 1]

(* the first recursive work of a lazily owned request: pending -> ledger
   (ensurePendingRecursionWork under the pin lock; NewRecursionWorkLedger refs=1) *)
Materialize ==
  IF rootState = "pending" /\ Enabled
    THEN rootState' = "live" /\ refs' = 1 /\ rootTok' = 1
    ELSE UNCHANGED <<rootState, refs, rootTok>>

(* ---- DebitRecursionWork / Debit / DebitBestEffort ------------------------ *)
(* A call is invoked (Start: operands fixed, nothing shared touched yet) and
   then enters the ledger (Enter: the first step that reads / changes shared
   state).  Keeping them apart matters for concurrent histories: another
   goroutine may run between the invocation and the first shared step. *)
Invoke(p, name) ==
  /\ Begin(p)
  /\ pc' = [pc EXCEPT ![p] = "enter"]
  /\ opn' = [opn EXCEPT ![p] = name]

DebitStart(p, k, lt) ==
  /\ "debit" \in OpSet
  /\ k \in Kinds
  /\ Invoke(p, "debit")
  /\ kind' = [kind EXCEPT ![p] = k]
  /\ latch' = [latch EXCEPT ![p] = lt]
  /\ UNCHANGED <<rootState, ledgerVars, used, held, rootTok, ghostVars, lastRes>>

(* recursionWorkForUse + controlError + mode switch *)
DebitEnter(p) ==
  LET k == kind[p] IN
  /\ pc[p] = "enter" /\ opn[p] = "debit"
  /\ IF rootState = "closed"
       THEN /\ Ret(p, "canceled")            \* control ledger: context.Canceled
            /\ UNCHANGED <<rootState, refs, rootTok, started>>
       ELSE IF ~Enabled
       THEN /\ Ret(p, "nil")                 \* firewall off: no ledger, nothing counted
            /\ UNCHANGED <<rootState, refs, rootTok, started>>
       ELSE /\ Materialize
            /\ started' = [started EXCEPT ![k] = @ + 1]
            /\ pc' = [pc EXCEPT ![p] = IF Mode = "shadow" THEN "sadd" ELSE "load"]
            /\ UNCHANGED lastRes
  /\ UNCHANGED <<counter, exhausted, first, finished, published, kind, latch, used, opn, ops, held,
                 accepted, limitErrs, reqMarks>>

(* shadow: counter.Add(1) == limit+1 -> exactly one goroutine records the crossing *)
ShadowAdd(p) ==
  LET k == kind[p] IN
  /\ pc[p] = "sadd"
  /\ counter' = [counter EXCEPT ![k] = @ + 1]
  /\ accepted' = [accepted EXCEPT ![k] = @ + 1]
  /\ IF counter[k] + 1 = Cap[k] + 1
       THEN /\ pc' = [pc EXCEPT ![p] = "markOr"]
            /\ latch' = [latch EXCEPT ![p] = FALSE]
            /\ UNCHANGED lastRes
       ELSE Ret(p, "nil") /\ UNCHANGED latch
  /\ UNCHANGED <<rootState, exhausted, first, refs, finished, published, kind, used, opn, ops, held, rootTok,
                 started, limitErrs, reqMarks>>

(* enforce: used := counter.Load() *)
Load(p) ==
  LET k == kind[p] IN
  /\ pc[p] = "load"
  /\ used' = [used EXCEPT ![p] = counter[k]]
  /\ IF (IF GtBug THEN counter[k] > Cap[k] ELSE counter[k] >= Cap[k])
       THEN /\ pc' = [pc EXCEPT ![p] = "markOr"]
            /\ reqMarks' = IF latch[p] THEN reqMarks + 1 ELSE reqMarks
       ELSE /\ pc' = [pc EXCEPT ![p] = "cas"]
            /\ UNCHANGED reqMarks
  /\ UNCHANGED <<rootState, ledgerVars, kind, latch, opn, ops, held, rootTok, accepted, started, limitErrs, lastRes>>

(* enforce: counter.CompareAndSwap(used, used+1) *)
CAS(p) ==
  LET k == kind[p] IN
  /\ pc[p] = "cas"
  /\ IF counter[k] = used[p]
       THEN /\ counter' = [counter EXCEPT ![k] = @ + 1]
            /\ accepted' = [accepted EXCEPT ![k] = @ + 1]
            /\ Ret(p, "nil")
       ELSE /\ pc' = [pc EXCEPT ![p] = "load"]
            /\ UNCHANGED <<counter, accepted, lastRes>>
  /\ UNCHANGED <<rootState, exhausted, first, refs, finished, published, kind, latch, used, opn, ops, held, rootTok,
                 started, limitErrs, reqMarks>>

(* markExhausted: exhausted.Or(bit) ... *)
MarkOr(p) ==
  /\ pc[p] = "markOr"
  /\ exhausted' = IF Live THEN exhausted \cup {kind[p]} ELSE exhausted
  /\ IF latch[p] /\ Live
       THEN pc' = [pc EXCEPT ![p] = "markFirst"] /\ UNCHANGED <<lastRes, limitErrs>>
       ELSE IF Mode = "shadow"
       THEN Ret(p, "nil") /\ UNCHANGED limitErrs
       ELSE Ret(p, "limit") /\ limitErrs' = limitErrs + 1
  /\ UNCHANGED <<rootState, counter, first, refs, finished, published, kind, latch, used, opn, ops, held, rootTok,
                 accepted, started, reqMarks>>

(* ... first.CompareAndSwap(0, kind+1) *)
MarkFirst(p) ==
  /\ pc[p] = "markFirst"
  /\ first' = IF first = "none" THEN kind[p] ELSE first
  /\ Ret(p, "limit")
  /\ limitErrs' = limitErrs + 1
  /\ UNCHANGED <<rootState, counter, exhausted, refs, finished, published, kind, latch, used, opn, ops, held, rootTok,
                 accepted, started, reqMarks>>

(* ---- CheckLocal(kind, used) / Reject(kind): local limits ---------------------- *)
(* u = items already examined; Reject is CheckLocal at the limit without the `used == limit` filter *)
CheckLocal(p, k, u, lt) ==
  /\ "local" \in OpSet
  /\ k \in LKinds
  /\ u \in 0..(Cap[k] + 1)
  /\ Invoke(p, "local")
  /\ kind' = [kind EXCEPT ![p] = k]
  /\ latch' = [latch EXCEPT ![p] = lt]
  /\ used' = [used EXCEPT ![p] = u]
  /\ UNCHANGED <<rootState, ledgerVars, held, rootTok, ghostVars, lastRes>>

LocalEnter(p) ==
  LET k == kind[p]  u == used[p]  lt == latch[p] IN
  /\ pc[p] = "enter" /\ opn[p] = "local"
  /\ IF rootState = "closed"
       THEN Ret(p, "canceled") /\ UNCHANGED <<latch, reqMarks, rootState, refs, rootTok>>
       ELSE IF ~Enabled
       THEN Ret(p, "nil") /\ UNCHANGED <<latch, reqMarks, rootState, refs, rootTok>>
       ELSE /\ Materialize                   \* recursionWorkForUse: a local check is a first use too
            /\ IF u < Cap[k]
                 THEN Ret(p, "nil") /\ UNCHANGED <<latch, reqMarks>>
                 ELSE IF Mode = "shadow"
                 THEN IF u = Cap[k]
                        THEN /\ pc' = [pc EXCEPT ![p] = "markOr"] /\ latch' = [latch EXCEPT ![p] = FALSE]
                             /\ UNCHANGED <<lastRes, reqMarks>>
                        ELSE Ret(p, "nil") /\ UNCHANGED <<latch, reqMarks>>
                 ELSE /\ pc' = [pc EXCEPT ![p] = "markOr"]
                      /\ reqMarks' = IF lt THEN reqMarks + 1 ELSE reqMarks
                      /\ UNCHANGED <<lastRes, latch>>
  /\ UNCHANGED <<counter, exhausted, first, finished, published, kind, used, opn, ops, held, accepted, started, limitErrs>>

(* ---- Retain / release -------------------------------------------------------- *)
RetainStart(p) ==
  /\ "retain" \in OpSet
  /\ held[p] < MaxHeld
  /\ Invoke(p, "retain")
  /\ UNCHANGED <<rootState, ledgerVars, kind, latch, used, held, rootTok, ghostVars, lastRes>>

(* RecursionWorkFrom(ctx) + `!l.isLive() || !l.policy.Enabled()` *)
RetainEnter(p) ==
  /\ pc[p] = "enter" /\ opn[p] = "retain"
  /\ IF Live /\ Enabled
       THEN pc' = [pc EXCEPT ![p] = "rload"] /\ UNCHANGED lastRes
       ELSE Ret(p, "refused")
  /\ UNCHANGED <<rootState, ledgerVars, kind, latch, used, opn, ops, held, rootTok, ghostVars>>

RetainLoad(p) ==
  /\ pc[p] = "rload"
  /\ used' = [used EXCEPT ![p] = refs]
  /\ IF refs = 0 THEN Ret(p, "refused") ELSE pc' = [pc EXCEPT ![p] = "rcas"] /\ UNCHANGED lastRes
  /\ UNCHANGED <<rootState, ledgerVars, kind, latch, opn, ops, held, rootTok, ghostVars>>

RetainCAS(p) ==
  /\ pc[p] = "rcas"
  /\ IF refs = used[p]
       THEN /\ refs' = refs + 1
            /\ held' = [held EXCEPT ![p] = @ + 1]
            /\ Ret(p, "retained")
       ELSE /\ pc' = [pc EXCEPT ![p] = "rload"]
            /\ UNCHANGED <<refs, held, lastRes>>
  /\ UNCHANGED <<rootState, counter, exhausted, first, finished, published, kind, latch, used, opn, ops, rootTok, ghostVars>>

(* the once-guarded release function of a retained token *)
ReleaseStart(p) ==
  /\ Begin(p)
  /\ held[p] > 0
  /\ held' = [held EXCEPT ![p] = @ - 1]
  /\ pc' = [pc EXCEPT ![p] = "relDec"]
  /\ opn' = [opn EXCEPT ![p] = "release"]
  /\ used' = [used EXCEPT ![p] = 0]       \* 0: a retained token, 1: the root's reference
  /\ UNCHANGED <<rootState, ledgerVars, kind, latch, rootTok, ghostVars, lastRes>>

(* refs.Add(-1) *)
ReleaseDec(p) ==
  /\ pc[p] = "relDec"
  /\ refs' = refs - 1
  /\ rootTok' = IF used[p] = 1 THEN 0 ELSE rootTok
  /\ IF refs - 1 # 0
       THEN Ret(p, IF used[p] = 1 THEN "finished" ELSE "released")
       ELSE pc' = [pc EXCEPT ![p] = "relFin"] /\ UNCHANGED lastRes
  /\ UNCHANGED <<rootState, counter, exhausted, first, finished, published, kind, latch, used, opn, ops, held, ghostVars>>

(* finished.CompareAndSwap(false, true) *)
ReleaseFin(p) ==
  /\ pc[p] = "relFin"
  /\ IF finished
       THEN Ret(p, IF used[p] = 1 THEN "finished" ELSE "released") /\ UNCHANGED finished
       ELSE finished' = TRUE /\ pc' = [pc EXCEPT ![p] = "publish"] /\ UNCHANGED lastRes
  /\ UNCHANGED <<rootState, counter, exhausted, first, refs, published, kind, latch, used, opn, ops, held, rootTok, ghostVars>>

(* Snapshot + metrics *)
Publish(p) ==
  /\ pc[p] = "publish"
  /\ published' = published + 1
  /\ Ret(p, IF used[p] = 1 THEN "finished" ELSE "released")
  /\ UNCHANGED <<rootState, counter, exhausted, first, refs, finished, kind, latch, used, opn, ops, held, rootTok, ghostVars>>

(* ---- finish (the outer Chain, FinishRecursionWork) --------------------------- *)
Finish(p) ==
  /\ "finish" \in OpSet
  /\ Invoke(p, "finish")
  /\ UNCHANGED <<rootState, ledgerVars, kind, latch, used, held, rootTok, ghostVars, lastRes>>

FinishEnter(p) ==
  /\ pc[p] = "enter" /\ opn[p] = "finish"
  /\ CASE rootState = "pending" ->          \* no recursive work ran: the pin closes
            /\ rootState' = "closed"
            /\ Ret(p, "finished")
            /\ UNCHANGED used
       [] rootState = "live" /\ Enabled ->  \* rootState.CAS(live, rootDone), then release()
            /\ rootState' = "rootDone"
            /\ pc' = [pc EXCEPT ![p] = "relDec"]
            /\ used' = [used EXCEPT ![p] = 1]
            /\ UNCHANGED lastRes
       [] OTHER ->
            /\ Ret(p, "noop")
            /\ UNCHANGED <<rootState, used>>
  /\ UNCHANGED <<ledgerVars, kind, latch, opn, ops, held, rootTok, ghostVars>>

Next ==
  \E p \in Procs :
    \/ \E k \in Kinds, lt \in BOOLEAN : DebitStart(p, k, lt)
    \/ \E k \in LKinds, u \in 0..3, lt \in BOOLEAN : CheckLocal(p, k, u, lt)
    \/ DebitEnter(p) \/ LocalEnter(p) \/ RetainEnter(p) \/ FinishEnter(p)
    \/ ShadowAdd(p) \/ Load(p) \/ CAS(p) \/ MarkOr(p) \/ MarkFirst(p)
    \/ RetainStart(p) \/ RetainLoad(p) \/ RetainCAS(p)
    \/ ReleaseStart(p) \/ ReleaseDec(p) \/ ReleaseFin(p) \/ Publish(p)
    \/ Finish(p)

Spec == Init /\ [][Next]_vars

(* ------------------------------- properties ---------------------------------- *)
TypeOK ==
  /\ rootState \in {"pending", "live", "rootDone", "closed"}
  /\ counter \in [Kinds -> Nat]
  /\ exhausted \subseteq AllKinds
  /\ first \in AllKinds \cup {"none"}
  /\ refs \in Int
  /\ pc \in [Procs -> PCs]
  /\ lastRes \in [Procs -> Results]

(* enforce: an accepted counter never passes its cap *)
AcceptedNeverExceedsCap ==
  Mode = "enforce" => \A k \in Kinds : counter[k] <= Cap[k] /\ accepted[k] = counter[k]

(* shadow: never a limit error, and everything is counted *)
ShadowNeverRejects ==
  Mode = "shadow" =>
    /\ limitErrs = 0
    /\ \A p \in Procs : lastRes[p] # "limit"
    /\ \A k \in Kinds : counter[k] = accepted[k]
    /\ (\A p \in Procs : pc[p] = "idle") => \A k \in Kinds : counter[k] = started[k]
ShadowRecordsCrossing ==
  (Mode = "shadow" /\ \A p \in Procs : pc[p] = "idle") =>
     \A k \in Kinds : (counter[k] > Cap[k]) = (k \in exhausted)

(* off: nothing is counted *)
OffCountsNothing == Mode = "off" => (\A k \in Kinds : counter[k] = 0) /\ exhausted = {} /\ first = "none" /\ refs = 0

(* the first latched rejection never changes *)
FirstRejectionLatched == [][first # "none" => first' = first]_vars
(* enforce: a completed required rejection has latched something *)
RequiredRejectionLatches ==
  (Mode = "enforce" /\ Live) =>
     \A p \in Procs : (pc[p] = "idle" /\ lastRes[p] = "limit" /\ latch[p]) => first # "none"
(* best-effort rejections alone never latch; only enforce mode latches *)
BestEffortDoesNotLatch == first # "none" => (reqMarks > 0 /\ Mode = "enforce")
(* a latched kind is marked exhausted *)
LatchedIsExhausted == first # "none" => first \in exhausted

(* a closed (tombstoned) request never mutates a ledger and answers context.Canceled *)
ClosedLedgerRejects ==
  [][rootState = "closed" =>
        /\ UNCHANGED <<rootState, counter, exhausted, first, refs, finished, published>>
        /\ \A p \in Procs : lastRes'[p] # lastRes[p] => lastRes'[p] \in {"canceled", "refused", "noop"}]_vars
ClosedIsFinal == [][rootState = "closed" => rootState' = "closed"]_vars

(* reference accounting: the root's reference plus the retained tokens, also mid-release *)
InRelease(p) == IF pc[p] = "relDec" /\ used[p] = 0 THEN 1 ELSE 0
RECURSIVE SumHeld(_)
SumHeld(S) == IF S = {} THEN 0 ELSE LET p == CHOOSE x \in S : TRUE IN held[p] + InRelease(p) + SumHeld(S \ {p})
RefsOK == refs = rootTok + SumHeld(Procs)

(* release publishes exactly once, after the root finished and the last retained job released *)
PublishOnce ==
  /\ published <= 1
  /\ published = 1 =>
       /\ rootState = "rootDone" /\ refs = 0 /\ finished
       /\ \A p \in Procs : held[p] = 0
PublishedWhenQuiescent ==
  (rootState = "rootDone" /\ \A p \in Procs : pc[p] = "idle" /\ held[p] = 0) => published = 1
NoRetainAfterPublish ==
  [][published = 1 => \A p \in Procs : held'[p] <= held[p]]_vars
=============================================================================
