CONSTANTS
  Procs = {1, 2, 3}
  Kinds = {"out", "int"}
  LKinds = {"key"}
  Cap <- MCCap
  Mode = "shadow"
  Lazy = FALSE
  MaxOps = 5
  MaxHeld = 2
INIT Init
NEXT Next
CHECK_DEADLOCK FALSE
