CONSTANTS
  Procs = {1, 2, 3}
  Kinds = {"out"}
  LKinds = {"key"}
  Cap <- MCCap1
  Mode = "enforce"
  Lazy = TRUE
  MaxOps = 3
  MaxHeld = 0
  OpSet = {"debit"}
  Atomic = FALSE
  GtBug = FALSE
SPECIFICATION Spec
INVARIANTS TypeOK AcceptedNeverExceedsCap ShadowNeverRejects ShadowRecordsCrossing OffCountsNothing RequiredRejectionLatches
  BestEffortDoesNotLatch LatchedIsExhausted RefsOK PublishOnce PublishedWhenQuiescent
PROPERTIES FirstRejectionLatched ClosedLedgerRejects ClosedIsFinal NoRetainAfterPublish
CHECK_DEADLOCK FALSE
