CONSTANTS
  Procs = {1, 2, 3}
  Kinds = {"out", "int"}
  LKinds = {"key"}
  Cap <- MCCap
  Mode = "off"
  Lazy = TRUE
  MaxOps = 6
  MaxHeld = 2
  OpSet = {"debit", "local", "retain", "finish"}
  Atomic = TRUE
  GtBug = FALSE
INIT Init
NEXT Next
CHECK_DEADLOCK FALSE
