---------------------------- MODULE Trace_Ledger ----------------------------
(***************************************************************************)
(* Validation of concurrent histories recorded from the real               *)
(* middleware.RecursionWorkLedger (harness/c12/ledger_test.go) against     *)
(* Ledger.tla.  Goroutines call the ledger concurrently; every call logs   *)
(* an invocation line before it starts and a response line after it        *)
(* returned, both stamped from one harness-side atomic sequence, so the    *)
(* line order respects real time.  The atomic steps inside a call are not  *)
(* observable: they are the silent steps TLC interleaves between lines, so *)
(* acceptance means the history is linearizable with respect to the model  *)
(* of the individual atomics.  An `end` line carries the quiescent         *)
(* counters / latch / reference / publication state.  Histories are        *)
(* concatenated with Reset lines.  Because silent steps are composed in, a  *)
(* log is accepted when some path consumes every line: the high-water mark *)
(* of `l` is kept in TLC register 1 (run with -workers 1).                  *)
(***************************************************************************)
EXTENDS MC_Ledger, Json, IOUtils

TraceLog == ndJsonDeserialize(IOEnv.TRACE_FILE)

VARIABLE l
tvars == <<vars, l>>

TraceInit == Init /\ l = 1 /\ TLCSet(1, 0)
Line == TraceLog[l]
IsEv(e) == l <= Len(TraceLog) /\ Line.ev = e /\ l' = l + 1

TInv ==
  /\ IsEv("inv")
  /\ LET p == Line.p IN
     \/ Line.op = "debit" /\ DebitStart(p, Line.k, Line.lt)
     \/ Line.op = "local" /\ CheckLocal(p, Line.k, Line.u, Line.lt)
     \/ Line.op = "retain" /\ RetainStart(p)
     \/ Line.op = "release" /\ ReleaseStart(p)
     \/ Line.op = "finish" /\ Finish(p)

TRes ==
  /\ IsEv("res")
  /\ pc[Line.p] = "idle"
  /\ IF Line.op = "finish" THEN lastRes[Line.p] \in {"finished", "noop"}
     ELSE lastRes[Line.p] = Line.res
  /\ UNCHANGED vars

Silent ==
  /\ l <= Len(TraceLog)
  /\ \E p \in Procs :
       \/ DebitEnter(p) \/ LocalEnter(p) \/ RetainEnter(p) \/ FinishEnter(p)
       \/ ShadowAdd(p) \/ Load(p) \/ CAS(p) \/ MarkOr(p) \/ MarkFirst(p)
       \/ RetainLoad(p) \/ RetainCAS(p) \/ ReleaseDec(p) \/ ReleaseFin(p) \/ Publish(p)
  /\ UNCHANGED l

TEnd ==
  /\ IsEv("end")
  /\ \A p \in Procs : pc[p] = "idle"
  /\ \A k \in Kinds : counter[k] = Line.counter[k]
  /\ \A k \in AllKinds : (k \in exhausted) = Line.exhausted[k]
  /\ first = Line.first
  /\ published = Line.published
  /\ Line.live => (refs = Line.refs /\ finished = Line.finished)
  /\ (rootState = "closed") = Line.closed
  /\ UNCHANGED vars

TReset ==
  /\ IsEv("Reset")
  /\ rootState' = IF Lazy THEN "pending" ELSE (IF Enabled THEN "live" ELSE "pending")
  /\ counter' = [k \in Kinds |-> 0]
  /\ exhausted' = {}
  /\ first' = "none"
  /\ refs' = IF ~Lazy /\ Enabled THEN 1 ELSE 0
  /\ finished' = FALSE
  /\ published' = 0
  /\ pc' = [p \in Procs |-> "idle"]
  /\ kind' = [p \in Procs |-> CHOOSE k \in Kinds : TRUE]
  /\ latch' = [p \in Procs |-> FALSE]
  /\ used' = [p \in Procs |-> 0]
  /\ opn' = [p \in Procs |-> "none"]
  /\ ops' = [p \in Procs |-> 0]
  /\ held' = [p \in Procs |-> 0]
  /\ rootTok' = IF ~Lazy /\ Enabled THEN 1 ELSE 0
  /\ accepted' = [k \in Kinds |-> 0]
  /\ started' = [k \in Kinds |-> 0]
  /\ limitErrs' = 0
  /\ reqMarks' = 0
  /\ lastRes' = [p \in Procs |-> "none"]

TraceNext == TReset \/ TInv \/ TRes \/ TEnd \/ Silent
TraceSpec == TraceInit /\ [][TraceNext]_tvars

HighWater == TLCSet(1, IF l > TLCGet(1) THEN l ELSE TLCGet(1))
TraceAccepted == TLCGet(1) > Len(TraceLog)
=============================================================================
