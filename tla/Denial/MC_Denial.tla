----------------------------- MODULE MC_Denial -----------------------------
(* constant values that a .cfg cannot spell (tuples) and the zone groups     *)
EXTENDS Denial
NoCollide   == <<>>
\* "a.a" does not exist in zone flat; its hash is forced onto that of "a" (exists, type A)
CollideFlat == << <<"a", "a">>, <<"a">> >>
ZonesD2     == {"single", "flat", "wild", "wildtypes", "ent", "deleg", "dname", "entwild", "optout"}
ZonesD3     == ZonesD2 \cup {"deep", "deepcut", "deepopt", "deepent"}
ZonesCache  == {"flat", "wild", "wildtypes", "ent", "deleg", "dname", "optout"}
ZonesCacheQ == {"wild", "wildtypes", "deleg"}
ZonesCache3 == ZonesD3
NoPol       == {}
AllPol      == {"sibling", "child", "param"}
BothFam     == {"nsec", "nsec3"}
\* a soundness failure under the forced collision must be confined to names that collide
=============================================================================
