CONSTANTS
  Zones <- ZonesD2
  Families <- BothFam
  MaxDepth = 2
  MaxSub = 8
  PolKinds <- AllPol
  HashSel = 1
  Collide <- NoCollide
  Part = "sound"
  MaxClock = 3
  MaxAdmits = 2
  AdmitSub = 3
  MinimalProofs = TRUE
  WithForge = FALSE
  ForgeTypes = {"A", "DS"}
  EmitCases = TRUE
INIT Init
NEXT Next
VIEW View
CHECK_DEADLOCK FALSE
INVARIANTS TypeOK Sound AggressiveSound AggressiveNeverOptOut OptOutNeverSecure MixedRefused FullChainProves EmitZone EmitCase
