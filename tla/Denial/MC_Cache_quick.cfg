CONSTANTS
  Zones <- ZonesCacheQ
  Families <- BothFam
  MaxDepth = 2
  MaxSub = 3
  PolKinds <- NoPol
  HashSel = 1
  Collide <- NoCollide
  Part = "cache"
  MaxClock = 3
  MaxAdmits = 2
  AdmitSub = 3
  MinimalProofs = TRUE
  WithForge = FALSE
  ForgeTypes = {"A", "DS"}
  EmitCases = FALSE
INIT Init
NEXT Next
VIEW View
CHECK_DEADLOCK FALSE
INVARIANTS TypeOK
PROPERTIES SynthesisedIsTrue
