CONSTANTS
  Zones <- ZonesCache
  Families <- BothFam
  MaxDepth = 2
  MaxSub = 3
  PolKinds <- NoPol
  HashSel = 1
  Collide <- NoCollide
  Part = "cache"
  MaxClock = 4
  MaxAdmits = 4
  AdmitSub = 3
  MinimalProofs = TRUE
  WithForge = TRUE
  ForgeTypes = {"A", "DS"}
  EmitCases = FALSE
INIT Init
NEXT Next
VIEW View
CHECK_DEADLOCK FALSE
INVARIANTS TypeOK
PROPERTIES SynthesisedIsTrue
