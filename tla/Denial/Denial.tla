------------------------------- MODULE Denial -------------------------------
(***************************************************************************)
(* C02 -- denial of existence is accepted or synthesised only when proven. *)
(*                                                                         *)
(* Part 1 (Part = "sound"): a signed zone is DATA (ZoneLib: owner names    *)
(* over the labels a, b and the wildcard label, types, delegations, DNAME, *)
(* empty non-terminals, Opt-Out).  From it the spec derives the zone's     *)
(* Truth for every question, its NSEC chain (canonical order is the        *)
(* operator CanonLess) and its NSEC3 ring (abstract hash HH, injective     *)
(* unless Collide forces one collision).  The RFC 4035 / 5155 / 6840 /     *)
(* 8198 acceptance rules are predicates over a SUBSET of those genuine     *)
(* records, optionally polluted with one record replayed from a sibling    *)
(* zone, a child zone, or the zone's second NSEC3 chain.  TLC enumerates   *)
(* zone x family x subset x question and checks Sound / AggressiveSound /  *)
(* MixedRefused on every one of them.                                      *)
(*                                                                         *)
(* Part 2 (Part = "cache"): the denial-proof index (middleware/cache       *)
(* denialProofCache: per zone SOA + NSEC/NSEC3 RRsets with expiries) and   *)
(* the subtree-cut cache (nxDomainCutCache) are state; Admit mirrors the   *)
(* resolver gate (authority(): exact verdict AND the stricter RFC 8198     *)
(* classifier agree, no Opt-Out) followed by ResponseWriter.WriteMsg ->    *)
(* RecordDenialProof / RecordNXDomainCut; Expire advances the clock;       *)
(* Synthesise is Store.GetWithContext (cut first, then the proof index);    *)
(* Forge is a replayed-records claim the zone does not support (the model   *)
(* gate refuses it; the driver pushes it through the real gate).            *)
(* SynthesisedIsTrue: whatever is synthesised equals Truth.                *)
(*                                                                         *)
(* Names are label sequences written TOP-DOWN from the zone apex:          *)
(* <<>> is the apex, <<"a","b">> is b.a.<zone>.                            *)
(***************************************************************************)
EXTENDS Naturals, Sequences, FiniteSets, TLC, Json
SX == INSTANCE SequencesExt
SetToSeq(S) == SX!SetToSeq(S)

CONSTANTS
  Zones,      \* subset of DOMAIN ZoneLib explored by this configuration
  Families,   \* subset of {"nsec", "nsec3"}
  MaxDepth,   \* depth of question names (2 quick, 3 thorough)
  MaxSub,     \* at most this many genuine records in a subset
  PolKinds,   \* subset of {"sibling","child","param"}: <= 1 foreign record is added
  HashSel,    \* 1 | 2 : which abstract hash the primary NSEC3 chain uses
  Collide,    \* <<>> or <<x, y>> : hash of name x is forced onto that of y
  Part,       \* "sound" | "cache"
  MaxClock, MaxAdmits, AdmitSub, MinimalProofs,
  WithForge,  \* TRUE: behaviours also contain forged claims (simulation configs)
  ForgeTypes, \* question types of forged claims (bounds the successor fan-out of -simulate)
  EmitCases   \* TRUE: print zones / cases as JSON for the conformance driver

VARIABLES zid, fam, phase, sub, q, vs, ag,         \* part 1 (vs/ag: what the rules conclude for sub, q)
          idx, soaExp, cuts, clock, nadm, turn,    \* part 2: the code-shaped state
          last, synth                              \* ghost: last call and what it returned

vars == <<zid, fam, phase, sub, q, vs, ag, idx, soaExp, cuts, clock, nadm, turn, last, synth>>
View == <<zid, fam, phase, sub, q, vs, ag, idx, soaExp, cuts, clock, nadm, turn>>

Types == {"A", "TXT", "NS", "DS", "SOA", "CNAME", "DNAME"}   \* two ordinary data types: bitmaps of neighbouring owners differ
Lab   == {"a", "b"}
Star  == "*"

Min(S) == CHOOSE x \in S : \A y \in S : x <= y
Max(S) == CHOOSE x \in S : \A y \in S : x >= y

-----------------------------------------------------------------------------
(* Names *)
Prefix(n, k)         == SubSeq(n, 1, k)
IsPrefix(p, n)       == Len(p) <= Len(n) /\ \A i \in 1..Len(p) : p[i] = n[i]
IsStrictPrefix(p, n) == Len(p) < Len(n) /\ IsPrefix(p, n)
StrictAnc(n)         == { Prefix(n, k) : k \in 0..(Len(n) - 1) }
Wild(p)              == Append(p, Star)
CommonLen(a, b) ==
  LET m == IF Len(a) < Len(b) THEN Len(a) ELSE Len(b)
  IN  Max({ k \in 0..m : \A i \in 1..k : a[i] = b[i] })

\* RFC 4034 6.1 canonical order: compare labels from the apex outwards, a
\* proper ancestor sorts first; labels compare by octet ('*' < 'a' < 'b').
Rank(l) == CASE l = Star -> 1 [] l = "a" -> 2 [] l = "b" -> 3
RECURSIVE LessFrom(_, _, _)
LessFrom(a, b, i) ==
  IF i > Len(a) THEN i <= Len(b)
  ELSE IF i > Len(b) THEN FALSE
  ELSE IF a[i] = b[i] THEN LessFrom(a, b, i + 1)
  ELSE Rank(a[i]) < Rank(b[i])
CanonLess(a, b) == LessFrom(a, b, 1)

RECURSIVE SeqsUpTo(_)
SeqsUpTo(d) == IF d = 0 THEN {<<>>}
               ELSE LET s == SeqsUpTo(d - 1)
                    IN  s \cup { Append(x, l) : x \in { y \in s : Len(y) = d - 1 }, l \in Lab }
PlainNames == SeqsUpTo(MaxDepth)
QNames     == PlainNames \cup { Wild(p) : p \in { x \in PlainNames : Len(x) < MaxDepth } }
Queries    == [name : QNames, type : Types]
QSeq       == SetToSeq(Queries)
AllNames   == SeqsUpTo(3) \cup { Wild(p) : p \in SeqsUpTo(2) }

-----------------------------------------------------------------------------
(* The zone library.  rr maps every owner of authoritative data (and every *)
(* delegation point) to its type set; everything else is derived.          *)
Apex == {"SOA", "NS"}
ZoneLib ==
  [ single  |-> [optout |-> FALSE, rr |-> (<<>> :> Apex)],
    flat    |-> [optout |-> FALSE, rr |-> (<<>> :> Apex @@ <<"a">> :> {"A"} @@ <<"b">> :> {"CNAME"})],
    wild    |-> [optout |-> FALSE, rr |-> (<<>> :> Apex @@ <<"*">> :> {"A"} @@ <<"a">> :> {"A"}
                                           @@ <<"a", "*">> :> {"CNAME"})],
    \* the wildcard and the owner whose NSEC covers the names it expands to hold DIFFERENT ordinary types
    wildtypes |-> [optout |-> FALSE, rr |-> (<<>> :> Apex @@ <<"*">> :> {"A"} @@ <<"a">> :> {"TXT"})],
    ent     |-> [optout |-> FALSE, rr |-> (<<>> :> Apex @@ <<"a", "b">> :> {"A"} @@ <<"b">> :> {"A"}
                                           @@ <<"b", "a">> :> {"A"})],
    deleg   |-> [optout |-> FALSE, rr |-> (<<>> :> Apex @@ <<"a">> :> {"NS"} @@ <<"b">> :> {"A"}
                                           @@ <<"b", "a">> :> {"NS", "DS"} @@ <<"b", "b">> :> {"A"})],
    dname   |-> [optout |-> FALSE, rr |-> (<<>> :> Apex @@ <<"a">> :> {"DNAME"} @@ <<"b">> :> {"A"}
                                           @@ <<"b", "*">> :> {"A"})],
    entwild |-> [optout |-> FALSE, rr |-> (<<>> :> Apex @@ <<"a", "*">> :> {"A"} @@ <<"b">> :> {"NS", "DS"})],
    optout  |-> [optout |-> TRUE,  rr |-> (<<>> :> Apex @@ <<"*">> :> {"A"} @@ <<"a", "b">> :> {"NS"} @@ <<"b">> :> {"A"}
                                           @@ <<"b", "a">> :> {"NS", "DS"} @@ <<"b", "b">> :> {"NS"})],
    \* depth 3
    deep    |-> [optout |-> FALSE, rr |-> (<<>> :> Apex @@ <<"a", "a", "a">> :> {"A"} @@ <<"a", "b">> :> {"A"}
                                           @@ <<"b">> :> {"A"} @@ <<"b", "a", "*">> :> {"A"})],
    deepcut |-> [optout |-> FALSE, rr |-> (<<>> :> Apex @@ <<"a", "*">> :> {"A"} @@ <<"a", "b">> :> {"NS"}
                                           @@ <<"b", "a">> :> {"DNAME"} @@ <<"b", "b", "a">> :> {"NS", "DS"}
                                           @@ <<"b", "b", "b">> :> {"CNAME"})],
    deepopt |-> [optout |-> TRUE,  rr |-> (<<>> :> Apex @@ <<"a", "a", "b">> :> {"NS"} @@ <<"a", "b">> :> {"A"}
                                           @@ <<"b">> :> {"NS"} @@ <<"a", "b", "a">> :> {"NS", "DS"})],
    deepent |-> [optout |-> FALSE, rr |-> (<<>> :> Apex @@ <<"a", "b", "a">> :> {"A"} @@ <<"a", "b", "b">> :> {"A"}
                                           @@ <<"b", "*">> :> {"A"} @@ <<"b", "a", "b">> :> {"CNAME"})] ]

Z(z)      == ZoneLib[z]
Owners(z) == DOMAIN Z(z).rr
T(z, n)   == IF n \in Owners(z) THEN Z(z).rr[n] ELSE {}
IsCut(z, n)   == n # <<>> /\ "NS" \in T(z, n)
IsDname(z, n) == "DNAME" \in T(z, n)
CutAbove(z, n)   == \E a \in StrictAnc(n) : IsCut(z, a)
DnameAbove(z, n) == \E a \in StrictAnc(n) : IsDname(z, a)
\* a node of the name tree: owns data or has an owner below it (empty non-terminal)
Exists(z, n) == \E o \in Owners(z) : IsPrefix(n, o)
CE(z, n)     == Prefix(n, Max({ k \in 0..Len(n) : Exists(z, Prefix(n, k)) }))

WellFormed(z) ==
  /\ <<>> \in Owners(z) /\ Apex \subseteq T(z, <<>>)
  /\ \A o \in Owners(z) :
       /\ o \in AllNames /\ T(z, o) # {} /\ T(z, o) \subseteq Types
       /\ ~CutAbove(z, o) /\ ~DnameAbove(z, o)
       /\ (o # <<>> => "SOA" \notin T(z, o))
       /\ ("DS" \in T(z, o) => IsCut(z, o))
ASSUME \A z \in Zones : z \in DOMAIN ZoneLib /\ WellFormed(z)

(* What the zone really says.  below-cut also covers a non-DS question AT a *)
(* delegation point (the parent can only refer).                            *)
Truth(z, qq) ==
  LET n == qq.name  t == qq.type IN
  IF CutAbove(z, n) THEN "below-cut"
  ELSE IF DnameAbove(z, n) THEN "below-dname"
  ELSE IF IsCut(z, n) THEN
         IF t = "DS" THEN (IF "DS" \in T(z, n) THEN "exists" ELSE "insecure-delegation")
         ELSE "below-cut"
  ELSE IF n \in Owners(z) THEN
         IF t \in T(z, n) \/ "CNAME" \in T(z, n) THEN "exists" ELSE "nodata"
  ELSE IF Exists(z, n) THEN "nodata"                      \* empty non-terminal
  ELSE LET w == Wild(CE(z, n)) IN
       IF w \in Owners(z)
       THEN (IF t \in T(z, w) \/ "CNAME" \in T(z, w) THEN "wildcard-answer" ELSE "wildcard-nodata")
       ELSE "nxdomain"

TruthTab == [z \in Zones |-> [qq \in Queries |-> Truth(z, qq)]]
TruthOf(z, qq) == TruthTab[z][qq]

-----------------------------------------------------------------------------
(* Denial records.  One record shape for both families so that sets mix.   *)
Rec(f, s, o, nx, ty, oo, p, hh, nn) ==
  [fam |-> f, src |-> s, owner |-> o, next |-> nx, types |-> ty, oo |-> oo, par |-> p, h |-> hh, nh |-> nn]

\* ---- NSEC chain
NextOwner(z, o) ==
  LET later == { x \in Owners(z) : CanonLess(o, x) }
  IN  IF later = {} THEN <<>>
      ELSE CHOOSE x \in later : \A y \in later : x = y \/ CanonLess(x, y)
NsecRec(z, o)  == Rec("nsec", "self", o, NextOwner(z, o), T(z, o), FALSE, 0, 0, 0)
NsecChain(z)   == { NsecRec(z, o) : o \in Owners(z) }

\* ---- NSEC3 ring; abstract hash: a bijection of name codes modulo a prime
Digit(l) == CASE l = "a" -> 1 [] l = "b" -> 2 [] l = Star -> 3
RECURSIVE Code(_)
Code(n) == IF n = <<>> THEN 0 ELSE Digit(Head(n)) + 4 * Code(Tail(n))
HK(p) == CASE p = 1 -> 5 [] p = 2 -> 23 [] p = 3 -> 41
HC(p) == CASE p = 1 -> 3 [] p = 2 -> 11 [] p = 3 -> 29
H(p, n)  == ((Code(n) + 1) * HK(p) + HC(p)) % 89
HTab     == [p \in 1..3 |-> [n \in AllNames |->
               IF Collide # <<>> /\ n = Collide[1] THEN H(p, Collide[2]) ELSE H(p, n)]]
HH(p, n) == HTab[p][n]
Par1 == HashSel
Par2 == HashSel + 1

Hidden(z, o) == Z(z).optout /\ IsCut(z, o) /\ "DS" \notin T(z, o)   \* opted-out insecure delegation
Base3(z)     == { o \in Owners(z) : ~Hidden(z, o) }
Ring3(z)     == Base3(z) \cup { p \in AllNames : \E o \in Base3(z) : IsStrictPrefix(p, o) }
NextH(z, p, o) ==
  LET hs == { HH(p, x) : x \in Ring3(z) }  later == { v \in hs : v > HH(p, o) }
  IN  IF later = {} THEN Min(hs) ELSE Min(later)
Nsec3Rec(z, p, o) == Rec("nsec3", "self", o, <<>>, T(z, o), Z(z).optout, p, HH(p, o), NextH(z, p, o))
Nsec3Ring(z, p)   == { Nsec3Rec(z, p, o) : o \in Ring3(z) }
RingInjective(z)  == \A x, y \in Ring3(z) : x # y => HH(Par1, x) # HH(Par1, y) /\ HH(Par2, x) # HH(Par2, y)
ASSUME \A z \in Zones : RingInjective(z)

GenTab  == [z \in Zones |-> [f \in {"nsec", "nsec3"} |->
               IF f = "nsec" THEN NsecChain(z) ELSE Nsec3Ring(z, Par1)]]
Genuine(z, f) == GenTab[z][f]
RingTab == [z \in Zones |-> Ring3(z)]

\* ---- pollution: one foreign record.  Its content is irrelevant to the sound
\* rules (they never look at it); the conformance driver gives it a concrete,
\* maximally greedy shape (wrap-around interval covering the whole zone).
Cuts(z) == { o \in Owners(z) : IsCut(z, o) }
PolPool(z, f) ==
     (IF "sibling" \in PolKinds THEN { Rec(f, "sibling", <<>>, <<>>, {}, FALSE, Par1, 0, 0) } ELSE {})
  \cup (IF "child" \in PolKinds THEN { Rec(f, "child", c, c, {"SOA", "NS"}, FALSE, Par1, 0, 0) : c \in Cuts(z) } ELSE {})
  \cup (IF "param" \in PolKinds /\ f = "nsec3" THEN Nsec3Ring(z, Par2) ELSE {})

RECURSIVE SubsetsUpTo(_, _)
SubsetsUpTo(S, k) ==
  IF k = 0 \/ S = {} THEN {{}}
  ELSE LET x == CHOOSE y \in S : TRUE
           rest == S \ {x}
       IN  SubsetsUpTo(rest, k) \cup { s \cup {x} : s \in SubsetsUpTo(rest, k - 1) }

-----------------------------------------------------------------------------
(* Acceptance rules.  A verdict is [v, sec]: sec = FALSE marks a conclusion *)
(* that rests on an Opt-Out span (insecure: no AD, no shared state).        *)
Deleg(r) == "NS" \in r.types /\ "SOA" \notin r.types
Vd(v, s) == [v |-> v, sec |-> s]
Opt(c, x) == IF c THEN {x} ELSE {}

\* signer binding (RFC 4035 5.3.1 + FilterRRsToZone): only the signer zone's own records count
Usable(S) == { r \in S : r.src = "self" }

\* ---- NSEC (RFC 4035 5.4, RFC 6840 4.1/4.3, RFC 8198 app. B)
BadAnc(r, n) == IsStrictPrefix(r.owner, n) /\ (Deleg(r) \/ "DNAME" \in r.types)
Between(r, n) ==
  IF r.owner = r.next THEN n # r.owner
  ELSE IF CanonLess(r.owner, r.next) THEN CanonLess(r.owner, n) /\ CanonLess(n, r.next)
  ELSE CanonLess(r.owner, n) \/ CanonLess(n, r.next)
Absent(U, n) == { r \in U : Between(r, n) /\ ~IsStrictPrefix(n, r.next) /\ ~BadAnc(r, n) }
IsENT(U, n)  == \E r \in U : Between(r, n) /\ IsStrictPrefix(n, r.next) /\ ~BadAnc(r, n)
CEof(r, n) ==
  LET m == Max({CommonLen(n, r.owner), CommonLen(n, r.next)})
  IN  Prefix(n, IF m >= Len(n) THEN Len(n) - 1 ELSE m)
TypeAbsent(r, t) == t \notin r.types /\ "CNAME" \notin r.types

NsecVerdicts(U, qq) ==
  LET n == qq.name  t == qq.type IN
       Opt(n # <<>> /\ \E r1 \in Absent(U, n) : Absent(U, Wild(CEof(r1, n))) # {},
           Vd("nxdomain", TRUE))
  \cup Opt((\E r \in U : r.owner = n /\ TypeAbsent(r, t) /\ ~Deleg(r)) \/ IsENT(U, n),
           Vd("nodata", TRUE))
  \cup Opt(n # <<>> /\ \E r1 \in Absent(U, n) : \E r2 \in U :
               /\ r2.owner = Wild(CEof(r1, n)) /\ TypeAbsent(r2, t)
               /\ ~Deleg(r2) /\ "DNAME" \notin r2.types,
           Vd("wildcard-nodata", TRUE))
  \cup Opt(t = "DS" /\ \E r \in U : r.owner = n /\ Deleg(r) /\ "DS" \notin r.types,
           Vd("insecure-delegation", TRUE))

\* ---- NSEC3 (RFC 5155 8.3-8.9, RFC 9276): one parameter tuple, one zone
InName(S)    == { r \in S : r.src # "sibling" }            \* survives the name filter
Refused3(S)  == (\E r \in InName(S) : r.src = "child") \/ Cardinality({ r.par : r \in InName(S) }) > 1
M(U, n)      == { r \in U : r.h = HH(r.par, n) }
Cov(U, n)    == { r \in U : LET hn == HH(r.par, n) IN
                    /\ r.h # hn
                    /\ IF r.h = r.nh THEN TRUE
                       ELSE IF r.h < r.nh THEN r.h < hn /\ hn < r.nh
                       ELSE hn > r.h \/ hn < r.nh }
\* closest-encloser proofs: k = depth of a matched ancestor whose next-closer name is covered
CEPs(U, n) == { k \in 0..(Len(n) - 1) :
                  /\ M(U, Prefix(n, k)) # {} /\ Cov(U, Prefix(n, k + 1)) # {}
                  /\ \A r \in M(U, Prefix(n, k)) : ~Deleg(r) /\ "DNAME" \notin r.types }
NcSecure(U, n, k) == \A r \in Cov(U, Prefix(n, k + 1)) : ~r.oo

Nsec3Verdicts(S, qq) ==
  LET n == qq.name  t == qq.type  U == Usable(S) IN
  IF Refused3(S) \/ U = {} THEN {}
  ELSE
       { Vd("nxdomain", NcSecure(U, n, k)) :
            k \in { j \in CEPs(U, n) : Cov(U, Wild(Prefix(n, j))) # {} } }
  \cup Opt(\E r \in M(U, n) : TypeAbsent(r, t) /\ ~Deleg(r), Vd("nodata", TRUE))
  \cup { Vd("wildcard-nodata", NcSecure(U, n, k)) :
            k \in { j \in CEPs(U, n) : M(U, n) = {} /\ \E r \in M(U, Wild(Prefix(n, j))) :
                        TypeAbsent(r, t) /\ ~Deleg(r) /\ "DNAME" \notin r.types } }
  \cup Opt(t = "DS" /\ \E r \in M(U, n) : Deleg(r) /\ "DS" \notin r.types,
           Vd("insecure-delegation", TRUE))
  \cup { Vd("optout-unsigned", FALSE) :          \* RFC 5155 8.6: no DS, or not signed at all
            k \in { j \in CEPs(U, n) : t = "DS" /\ M(U, n) = {} /\ ~NcSecure(U, n, j) } }

Verdicts(f, S, qq) == IF f = "nsec" THEN NsecVerdicts(Usable(S), qq) ELSE Nsec3Verdicts(S, qq)

\* RFC 8198: the classifier that gates SHARED state.  NSEC: same rules (they
\* already refuse ENT / delegation / DNAME ambiguity); NSEC3: additionally no
\* Opt-Out record anywhere in the proof.
AggVerdicts(f, S, qq) ==
  IF f = "nsec" THEN { vd.v : vd \in NsecVerdicts(Usable(S), qq) }
  ELSE LET n == qq.name  t == qq.type  U == Usable(S) IN
       IF Refused3(S) \/ U = {} THEN {}
       ELSE
            { "nxdomain" : k \in { j \in CEPs(U, n) :
                  NcSecure(U, n, j) /\ \E r \in Cov(U, Wild(Prefix(n, j))) : ~r.oo } }
       \cup Opt(\E r \in M(U, n) : TypeAbsent(r, t) /\ ~Deleg(r), "nodata")
       \cup Opt(t = "DS" /\ \E r \in M(U, n) : Deleg(r) /\ "DS" \notin r.types, "insecure-delegation")
       \cup { "wildcard-nodata" : k \in { j \in CEPs(U, n) :
                  NcSecure(U, n, j) /\ M(U, n) = {} /\ t # "DS" /\ \E r \in M(U, Wild(Prefix(n, j))) :
                     TypeAbsent(r, t) /\ ~Deleg(r) /\ "DNAME" \notin r.types } }

-----------------------------------------------------------------------------
(* Soundness predicates (part 1) *)
\* a name with no signed presence: at or below an opted-out delegation, or an
\* empty non-terminal that exists only for opted-out delegations
Unsigned(z, n) == Z(z).optout /\ \E k \in 1..Len(n) : Prefix(n, k) \notin RingTab[z]
Collides(n)    == Collide # <<>> /\ \E k \in 0..Len(n) :
                     Prefix(n, k) = Collide[1] \/ Wild(Prefix(n, k)) = Collide[1]

VerdictTrue(z, qq, vd) ==
  LET tr == TruthOf(z, qq) IN
  IF vd.sec THEN tr = vd.v
  ELSE \/ tr = vd.v
       \/ Unsigned(z, qq.name)
       \/ (vd.v = "optout-unsigned" /\ qq.name \notin RingTab[z])

\* every accepted denial is the zone's truth (an Opt-Out based one may only
\* concern a name with no signed presence)
Sound ==
  phase = "asked" => \A vd \in vs : VerdictTrue(zid, q, vd) \/ Collides(q.name)

\* negative control for the forced-collision configuration: WITHOUT the exemption
\* the collision must break soundness (else the configuration exercises nothing)
SoundNoExemption ==
  phase = "asked" => \A vd \in vs : VerdictTrue(zid, q, vd)

AggressiveSound ==
  phase = "asked" => \A v \in ag : TruthOf(zid, q) = v \/ Collides(q.name)

\* the shared-state classifier never says more than the exact verifier's
\* secure verdicts, hence never rests on an Opt-Out next-closer cover
AggressiveNeverOptOut ==
  phase = "asked" => \A v \in ag : Vd(v, TRUE) \in vs

OptOutNeverSecure ==
  phase = "asked" /\ fam = "nsec3" /\ Z(zid).optout =>
    /\ \A vd \in vs : vd.v \in {"nxdomain", "wildcard-nodata", "optout-unsigned"} => ~vd.sec
    /\ ag \subseteq {"nodata", "insecure-delegation"}

MixedRefused ==
  phase = "asked" /\ fam = "nsec3" /\ Refused3(sub) => vs = {} /\ ag = {}

\* completeness sanity (vacuity guard of the model itself): the full genuine
\* chain proves every negative truth, except what only Opt-Out can say
FullChainProves ==
  phase = "asked" /\ sub = Genuine(zid, fam) /\ ~Collides(q.name) =>
    LET tr == TruthOf(zid, q) IN
    tr \in {"nxdomain", "nodata", "wildcard-nodata", "insecure-delegation"} =>
       \/ \E vd \in vs : vd.v = tr
       \/ (fam = "nsec3" /\ Z(zid).optout)

-----------------------------------------------------------------------------
(* Part 2: admission and expiry order into the proof index and the cut cache *)
GenuineSet == Genuine(zid, fam)
NoCall     == [op |-> "none"]

Live(i, c) == { r \in DOMAIN i : i[r] > c }
LiveCuts   == { n \in DOMAIN cuts : cuts[n] > clock }

\* what the resolver gate lets through to the shared caches: the exact verdict
\* is secure AND the RFC 8198 classifier reaches the same rcode
Rcode(v) == IF v = "nxdomain" THEN "NX" ELSE "ND"
NegV     == {"nxdomain", "nodata", "wildcard-nodata", "insecure-delegation"}
GateAdmits(f, S, qq) ==
  { v \in NegV : /\ Vd(v, TRUE) \in Verdicts(f, S, qq)
                 /\ \E a \in AggVerdicts(f, S, qq) : Rcode(a) = Rcode(v) }

\* admissible proofs <<G, question, verdict>> per zone and family, computed once;
\* MinimalProofs keeps only proofs none of whose proper subsets proves the same
AdmitTab ==
  IF Part # "cache" THEN <<>>
  ELSE [z \in Zones |-> [f \in Families |->
         LET cand == (SubsetsUpTo(Genuine(z, f), AdmitSub) \ {{}}) \X Queries
             ok   == UNION { { <<c[1], c[2], v>> : v \in GateAdmits(f, c[1], c[2]) } : c \in cand }
         IN  IF MinimalProofs
             THEN { t \in ok : ~\E u \in ok : u[2] = t[2] /\ u[3] = t[3] /\ u[1] # t[1] /\ u[1] \subseteq t[1] }
             ELSE ok ]]

\* forged claims <<G, question, rcode>> the zone does not support
ForgeTab ==
  IF Part # "cache" \/ ~WithForge THEN <<>>
  ELSE [z \in Zones |-> [f \in Families |->
         { <<c[1], c[2], rc>> : c \in { d \in (SubsetsUpTo(Genuine(z, f), 2) \ {{}}) \X Queries :
                                                d[2].type \in ForgeTypes },
                                rc \in {"NX", "ND"} }
         \ UNION { { <<c[1], c[2], Rcode(v)>> : v \in GateAdmits(f, c[1], c[2]) } :
                      c \in (SubsetsUpTo(Genuine(z, f), 2) \ {{}}) \X Queries } ]]

SynthOf(i, sx, cs, c, qq) ==
  IF \E n \in { m \in DOMAIN cs : cs[m] > c } : IsPrefix(n, qq.name) THEN {"nxdomain"}
  ELSE IF sx > c THEN AggVerdicts(fam, Live(i, c), qq)
  ELSE {}

TurnSet == {"admit", "expire", "synth", "forge"}
\* scheduler ghost: keeps -simulate behaviours balanced between the three calls
\* and never proposes a call that is no longer enabled
Turns(n, c) == {"synth"} \cup (IF n < MaxAdmits THEN {"admit"} ELSE {}) \cup (IF c < MaxClock THEN {"expire"} ELSE {})
               \cup (IF WithForge THEN {"forge"} ELSE {})

Init ==
  /\ zid \in Zones /\ fam \in Families
  /\ phase = "zone" /\ sub = {} /\ q = [name |-> <<>>, type |-> "A"] /\ vs = {} /\ ag = {}
  /\ idx = <<>> /\ soaExp = 0 /\ cuts = <<>> /\ clock = 0 /\ nadm = 0
  /\ turn \in (IF Part = "cache" THEN Turns(0, 0) ELSE {"admit"})
  /\ last = NoCall /\ synth = {}

CacheUnchanged == UNCHANGED <<idx, soaExp, cuts, clock, nadm, turn, last, synth>>

PickSubset(G, P) ==
  /\ Part = "sound" /\ phase = "zone"
  /\ sub' = G \cup P /\ phase' = "picked"
  /\ UNCHANGED <<zid, fam, q, vs, ag>> /\ CacheUnchanged

Query(qq) ==
  /\ Part = "sound" /\ phase = "picked"
  /\ q' = qq /\ phase' = "asked"
  /\ vs' = Verdicts(fam, sub, qq) /\ ag' = AggVerdicts(fam, sub, qq)
  /\ UNCHANGED <<zid, fam, sub>> /\ CacheUnchanged

Admit(G, qq, v, L) ==
  /\ Part = "cache" /\ turn = "admit" /\ nadm < MaxAdmits
  \* RecordDenialProof: the bundle's RRsets (re)enter the zone's index, the SOA entry is replaced
  /\ idx' = [r \in (DOMAIN idx) \cup G |-> IF r \in G THEN clock + L ELSE idx[r]]
  /\ soaExp' = clock + L
  \* RecordNXDomainCut: only for a name error, keyed by the exact denied name
  /\ cuts' = IF v = "nxdomain"
             THEN [n \in (DOMAIN cuts) \cup {qq.name} |-> IF n = qq.name THEN clock + L ELSE cuts[n]]
             ELSE cuts
  /\ last' = [op |-> "admit", g |-> G, q |-> qq, ttl |-> L, v |-> v]
  /\ nadm' = nadm + 1 /\ synth' = {} /\ turn' \in Turns(nadm + 1, clock)
  /\ UNCHANGED <<zid, fam, phase, sub, q, vs, ag, clock>>

Expire ==
  /\ Part = "cache" /\ turn = "expire" /\ clock < MaxClock
  /\ clock' = clock + 1
  /\ last' = [op |-> "expire"] /\ synth' = {} /\ turn' \in Turns(nadm, clock + 1)
  /\ UNCHANGED <<zid, fam, phase, sub, q, vs, ag, idx, soaExp, cuts, nadm>>

\* A forged claim: genuine records G replayed under a question and an rcode of
\* the attacker's choosing.  The sound gate never lets a false claim through, so
\* the model state does not move; the conformance driver pushes the same claim
\* through the REAL gate and admission path.
Forge(G, qq, rc) ==
  /\ Part = "cache" /\ turn = "forge"
  /\ last' = [op |-> "forge", g |-> G, q |-> qq, rc |-> rc]
  /\ synth' = {} /\ turn' \in Turns(nadm, clock)
  /\ UNCHANGED <<zid, fam, phase, sub, q, vs, ag, idx, soaExp, cuts, clock, nadm>>

Synthesise(qq) ==
  /\ Part = "cache" /\ turn = "synth"
  /\ synth' = SynthOf(idx, soaExp, cuts, clock, qq)
  /\ last' = [op |-> "synth", q |-> qq]
  /\ turn' \in Turns(nadm, clock)
  /\ UNCHANGED <<zid, fam, phase, sub, q, vs, ag, idx, soaExp, cuts, clock, nadm>>

Next ==
  \/ /\ Part = "sound" /\ phase = "zone"
     /\ \E G \in SubsetsUpTo(Genuine(zid, fam), MaxSub) :
          \E P \in {{}} \cup { {p} : p \in PolPool(zid, fam) } : PickSubset(G, P)
  \/ /\ Part = "sound" /\ phase = "picked"
     /\ \E qq \in Queries : Query(qq)
  \/ /\ Part = "cache" /\ turn = "admit" /\ nadm < MaxAdmits
     /\ \E t \in AdmitTab[zid][fam], L \in {1, 2} : Admit(t[1], t[2], t[3], L)
  \/ Expire
  \/ /\ Part = "cache" /\ turn = "forge"
     /\ \E t \in ForgeTab[zid][fam] : Forge(t[1], t[2], t[3])
  \/ /\ Part = "cache" /\ turn = "synth"
     /\ \E qq \in Queries : Synthesise(qq)

Spec == Init /\ [][Next]_vars

\* whatever the caches synthesise is the zone's truth (synth/last are hidden by
\* the VIEW, so this is an action property)
SynthTrue(qq, out) == Cardinality(out) <= 1 /\ \A v \in out : TruthOf(zid, qq) = v
SynthesisedIsTrue == [][last'.op = "synth" => SynthTrue(last'.q, synth')]_vars
TypeOK ==
  /\ zid \in Zones /\ fam \in Families /\ phase \in {"zone", "picked", "asked"}
  /\ clock \in 0..MaxClock /\ nadm \in 0..MaxAdmits /\ turn \in TurnSet
  /\ DOMAIN idx \subseteq GenuineSet /\ DOMAIN cuts \subseteq QNames

-----------------------------------------------------------------------------
(* Case export for the conformance driver (invariants are evaluated once   *)
(* per distinct state).                                                    *)
RecOut(r)  == [o |-> r.owner, s |-> r.src, p |-> r.par, nx |-> r.next, h |-> r.h, nh |-> r.nh,
               t |-> SetToSeq(r.types), oo |-> r.oo]
ZoneOut ==
  [k |-> "zone", z |-> zid, f |-> fam, optout |-> Z(zid).optout,
   owners |-> [i \in 1..Len(SetToSeq(Owners(zid))) |->
                 LET o == SetToSeq(Owners(zid))[i] IN [n |-> o, t |-> SetToSeq(T(zid, o))]],
   chain  |-> [i \in 1..Len(SetToSeq(Genuine(zid, fam))) |-> RecOut(SetToSeq(Genuine(zid, fam))[i])],
   ring   |-> SetToSeq(RingTab[zid]),
   qs     |-> [i \in 1..Len(QSeq) |-> [n |-> QSeq[i].name, t |-> QSeq[i].type]],
   truth  |-> [i \in 1..Len(QSeq) |-> TruthOf(zid, QSeq[i])],
   ce     |-> [i \in 1..Len(QSeq) |-> CE(zid, QSeq[i].name)]]
VCode(v) == CASE v = "nxdomain" -> "nx" [] v = "nodata" -> "nd" [] v = "wildcard-nodata" -> "wn"
                 [] v = "insecure-delegation" -> "id" [] v = "optout-unsigned" -> "ou"
VerdictCodes(qq) ==
  LET vq == SetToSeq(Verdicts(fam, sub, qq))  aq == SetToSeq(AggVerdicts(fam, sub, qq))
  IN  [v |-> [j \in 1..Len(vq) |-> <<VCode(vq[j].v), IF vq[j].sec THEN 1 ELSE 0>>],
       a |-> [j \in 1..Len(aq) |-> VCode(aq[j])]]
CaseOut ==
  LET us == SetToSeq(Usable(sub))
      fs == SetToSeq(sub \ Usable(sub))
      hit == SelectSeq([i \in 1..Len(QSeq) |-> i],
                       LAMBDA i : Verdicts(fam, sub, QSeq[i]) # {} \/ AggVerdicts(fam, sub, QSeq[i]) # {})
  IN  [k |-> "case", z |-> zid, f |-> fam,
       g  |-> [i \in 1..Len(us) |-> us[i].owner],
       gp |-> [i \in 1..Len(us) |-> us[i].par],
       p  |-> [i \in 1..Len(fs) |-> [s |-> fs[i].src, o |-> fs[i].owner]],
       acc |-> [j \in 1..Len(hit) |-> [i |-> hit[j], r |-> VerdictCodes(QSeq[hit[j]])]]]

EmitZone == (EmitCases /\ phase = "zone") => PrintT(ToJson(ZoneOut))
EmitCase == (EmitCases /\ phase = "picked") => PrintT(ToJson(CaseOut))
=============================================================================
