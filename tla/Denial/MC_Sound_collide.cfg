CONSTANTS
  Zones = {"flat"}
  Families <- BothFam
  MaxDepth = 2
  MaxSub = 8
  PolKinds <- NoPol
  HashSel = 1
  Collide <- CollideFlat
  Part = "sound"
  MaxClock = 3
  MaxAdmits = 2
  AdmitSub = 3
  MinimalProofs = TRUE
  WithForge = FALSE
  ForgeTypes = {"A", "DS"}
  EmitCases = FALSE
INIT Init
NEXT Next
VIEW View
CHECK_DEADLOCK FALSE
INVARIANTS TypeOK Sound AggressiveSound AggressiveNeverOptOut OptOutNeverSecure MixedRefused FullChainProves EmitZone EmitCase
