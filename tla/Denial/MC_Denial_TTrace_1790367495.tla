---- MODULE MC_Denial_TTrace_1790367495 ----
EXTENDS MC_Denial, Sequences, TLCExt, Toolbox, Naturals, TLC

_expression ==
    LET MC_Denial_TEExpression == INSTANCE MC_Denial_TEExpression
    IN MC_Denial_TEExpression!expression
----

_trace ==
    LET MC_Denial_TETrace == INSTANCE MC_Denial_TETrace
    IN MC_Denial_TETrace!trace
----

_inv ==
    ~(
        TLCGet("level") = Len(_TETrace)
        /\
        phase = ("asked")
        /\
        sub = ({[fam |-> "nsec3", oo |-> FALSE, src |-> "self", owner |-> <<"a">>, next |-> <<>>, types |-> {"A"}, par |-> 1, h |-> 13, nh |-> 18]})
        /\
        last = ([op |-> "none"])
        /\
        ag = ({"nodata"})
        /\
        clock = (0)
        /\
        turn = ("admit")
        /\
        nadm = (0)
        /\
        q = ([name |-> <<"a", "a">>, type |-> "NS"])
        /\
        synth = ({})
        /\
        fam = ("nsec3")
        /\
        zid = ("flat")
        /\
        idx = (<<>>)
        /\
        vs = ({[v |-> "nodata", sec |-> TRUE]})
        /\
        soaExp = (0)
        /\
        cuts = (<<>>)
    )
----

_init ==
    /\ ag = _TETrace[1].ag
    /\ q = _TETrace[1].q
    /\ last = _TETrace[1].last
    /\ nadm = _TETrace[1].nadm
    /\ zid = _TETrace[1].zid
    /\ synth = _TETrace[1].synth
    /\ phase = _TETrace[1].phase
    /\ cuts = _TETrace[1].cuts
    /\ soaExp = _TETrace[1].soaExp
    /\ idx = _TETrace[1].idx
    /\ fam = _TETrace[1].fam
    /\ clock = _TETrace[1].clock
    /\ turn = _TETrace[1].turn
    /\ vs = _TETrace[1].vs
    /\ sub = _TETrace[1].sub
----

_next ==
    /\ \E i,j \in DOMAIN _TETrace:
        /\ \/ /\ j = i + 1
              /\ i = TLCGet("level")
        /\ ag  = _TETrace[i].ag
        /\ ag' = _TETrace[j].ag
        /\ q  = _TETrace[i].q
        /\ q' = _TETrace[j].q
        /\ last  = _TETrace[i].last
        /\ last' = _TETrace[j].last
        /\ nadm  = _TETrace[i].nadm
        /\ nadm' = _TETrace[j].nadm
        /\ zid  = _TETrace[i].zid
        /\ zid' = _TETrace[j].zid
        /\ synth  = _TETrace[i].synth
        /\ synth' = _TETrace[j].synth
        /\ phase  = _TETrace[i].phase
        /\ phase' = _TETrace[j].phase
        /\ cuts  = _TETrace[i].cuts
        /\ cuts' = _TETrace[j].cuts
        /\ soaExp  = _TETrace[i].soaExp
        /\ soaExp' = _TETrace[j].soaExp
        /\ idx  = _TETrace[i].idx
        /\ idx' = _TETrace[j].idx
        /\ fam  = _TETrace[i].fam
        /\ fam' = _TETrace[j].fam
        /\ clock  = _TETrace[i].clock
        /\ clock' = _TETrace[j].clock
        /\ turn  = _TETrace[i].turn
        /\ turn' = _TETrace[j].turn
        /\ vs  = _TETrace[i].vs
        /\ vs' = _TETrace[j].vs
        /\ sub  = _TETrace[i].sub
        /\ sub' = _TETrace[j].sub

\* Uncomment the ASSUME below to write the states of the error trace
\* to the given file in Json format. Note that you can pass any tuple
\* to `JsonSerialize`. For example, a sub-sequence of _TETrace.
    \* ASSUME
    \*     LET J == INSTANCE Json
    \*         IN J!JsonSerialize("MC_Denial_TTrace_1790367495.json", _TETrace)

=============================================================================

 Note that you can extract this module `MC_Denial_TEExpression`
  to a dedicated file to reuse `expression` (the module in the 
  dedicated `MC_Denial_TEExpression.tla` file takes precedence 
  over the module `MC_Denial_TEExpression` below).

---- MODULE MC_Denial_TEExpression ----
EXTENDS MC_Denial, Sequences, TLCExt, Toolbox, Naturals, TLC

expression == 
    [
        \* To hide variables of the `MC_Denial` spec from the error trace,
        \* remove the variables below.  The trace will be written in the order
        \* of the fields of this record.
        ag |-> ag
        ,q |-> q
        ,last |-> last
        ,nadm |-> nadm
        ,zid |-> zid
        ,synth |-> synth
        ,phase |-> phase
        ,cuts |-> cuts
        ,soaExp |-> soaExp
        ,idx |-> idx
        ,fam |-> fam
        ,clock |-> clock
        ,turn |-> turn
        ,vs |-> vs
        ,sub |-> sub
        
        \* Put additional constant-, state-, and action-level expressions here:
        \* ,_stateNumber |-> _TEPosition
        \* ,_agUnchanged |-> ag = ag'
        
        \* Format the `ag` variable as Json value.
        \* ,_agJson |->
        \*     LET J == INSTANCE Json
        \*     IN J!ToJson(ag)
        
        \* Lastly, you may build expressions over arbitrary sets of states by
        \* leveraging the _TETrace operator.  For example, this is how to
        \* count the number of times a spec variable changed up to the current
        \* state in the trace.
        \* ,_agModCount |->
        \*     LET F[s \in DOMAIN _TETrace] ==
        \*         IF s = 1 THEN 0
        \*         ELSE IF _TETrace[s].ag # _TETrace[s-1].ag
        \*             THEN 1 + F[s-1] ELSE F[s-1]
        \*     IN F[_TEPosition - 1]
    ]

=============================================================================



Parsing and semantic processing can take forever if the trace below is long.
 In this case, it is advised to uncomment the module below to deserialize the
 trace from a generated binary file.

\*
\*---- MODULE MC_Denial_TETrace ----
\*EXTENDS MC_Denial, IOUtils, TLC
\*
\*trace == IODeserialize("MC_Denial_TTrace_1790367495.bin", TRUE)
\*
\*=============================================================================
\*

---- MODULE MC_Denial_TETrace ----
EXTENDS MC_Denial, TLC

trace == 
    <<
    ([phase |-> "zone",sub |-> {},last |-> [op |-> "none"],ag |-> {},clock |-> 0,turn |-> "admit",nadm |-> 0,q |-> [name |-> <<>>, type |-> "A"],synth |-> {},fam |-> "nsec3",zid |-> "flat",idx |-> <<>>,vs |-> {},soaExp |-> 0,cuts |-> <<>>]),
    ([phase |-> "picked",sub |-> {[fam |-> "nsec3", oo |-> FALSE, src |-> "self", owner |-> <<"a">>, next |-> <<>>, types |-> {"A"}, par |-> 1, h |-> 13, nh |-> 18]},last |-> [op |-> "none"],ag |-> {},clock |-> 0,turn |-> "admit",nadm |-> 0,q |-> [name |-> <<>>, type |-> "A"],synth |-> {},fam |-> "nsec3",zid |-> "flat",idx |-> <<>>,vs |-> {},soaExp |-> 0,cuts |-> <<>>]),
    ([phase |-> "asked",sub |-> {[fam |-> "nsec3", oo |-> FALSE, src |-> "self", owner |-> <<"a">>, next |-> <<>>, types |-> {"A"}, par |-> 1, h |-> 13, nh |-> 18]},last |-> [op |-> "none"],ag |-> {"nodata"},clock |-> 0,turn |-> "admit",nadm |-> 0,q |-> [name |-> <<"a", "a">>, type |-> "NS"],synth |-> {},fam |-> "nsec3",zid |-> "flat",idx |-> <<>>,vs |-> {[v |-> "nodata", sec |-> TRUE]},soaExp |-> 0,cuts |-> <<>>])
    >>
----


=============================================================================

---- CONFIG MC_Denial_TTrace_1790367495 ----
CONSTANTS
    Zones = { "flat" }
    Families <- BothFam
    MaxDepth = 2
    MaxSub = 8
    PolKinds <- NoPol
    HashSel = 1
    Collide <- CollideFlat
    Part = "sound"
    MaxClock = 3
    MaxAdmits = 2
    AdmitSub = 3
    EmitCases = FALSE

INVARIANT
    _inv

CHECK_DEADLOCK
    \* CHECK_DEADLOCK off because of PROPERTY or INVARIANT above.
    FALSE

INIT
    _init

NEXT
    _next

CONSTANT
    _TETrace <- _trace

ALIAS
    _expression
=============================================================================
\* Generated on Fri Sep 25 20:18:25 UTC 2026