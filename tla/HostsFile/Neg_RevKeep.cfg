\* model mutant: must violate PTRSound
SPECIFICATION Spec
CONSTANTS
  Names <- U_Names
  Pats <- U_Pats
  Under <- U_Under
  Sibling <- U_Sibling
  V4 <- U_V4
  V6 <- U_V6
  CutName <- U_CutName
  Files <- Small
  QueryNames <- FewNames
  QClasses <- OneClass
  QFlagSets <- NoFlags
  InitFile = "K1"
  AllowCuts = FALSE
  AllowBad = FALSE
  AllowDisabled = TRUE
  MaxLoaders = 1
  Serialized = FALSE
  Atomic = TRUE
  KeepOnError = TRUE
  Mut = "revkeep"
  Patient = FALSE
  QueriesOn = FALSE
INVARIANT PTRSound
CHECK_DEADLOCK FALSE
