------------------------------ MODULE HostsFile ------------------------------
(***************************************************************************)
(* The hostsfile middleware of sdns (middleware/hostsfile/hostsfile.go) as *)
(* a state machine.  Not tied to one of the listed properties: it extends  *)
(* the specification's coverage (bin/check XHOSTS, verdict classes         *)
(* hosts/...).                                                             *)
(*                                                                         *)
(*   disk    what is at the configured path right now: an abstract hosts   *)
(*           file (sequence of lines), nothing, or a file the scanner      *)
(*           refuses (a line longer than bufio's 64 KiB token limit).      *)
(*   tab     the PUBLISHED lookup tables (h.db): forward map, wildcard     *)
(*           list, reverse map - exactly the three structures of HostsDB.  *)
(*   pc,snap one record per load() goroutine the debounce timer has        *)
(*           spawned: "start" (spawned, file not opened yet), "read" (the  *)
(*           file content is in its hands: snap), back to "idle" after     *)
(*           h.db.Store.  time.AfterFunc + Timer.Stop never wait for a     *)
(*           load that is already running, so loads OVERLAP in the code    *)
(*           as built (Serialized = FALSE); Serialized = TRUE is the       *)
(*           repaired order (one load at a time).                          *)
(*   timer   the debounce timer of watchLoop (armed by every fs event).    *)
(*                                                                         *)
(* One action per critical step of the code, named after it:               *)
(*   WriteFile(c,k,cut)  the operator's writer puts content c at the path, *)
(*                       or dies after k-1 whole lines somewhere inside    *)
(*                       line k (cut = where: inside the address, inside   *)
(*                       the first name, before the alias)                 *)
(*   RemoveFile, WriteTooLong(c)                                           *)
(*   Fire(l)             the debounce timer fires: goroutine l spawned     *)
(*   LoadRead(l)         os.Open + scanner loop of load(): the content is  *)
(*                       read (one step: the writers of the model replace  *)
(*                       the file as a whole, see WriteFile)               *)
(*   LoadFail(l)         os.Open / scanner.Err() fails: load returns       *)
(*   LoadStore(l)        second pass + h.db.Store(db)                      *)
(*   Query(n,t,c,f)      ServeDNS / serveWire against h.db.Load()          *)
(*                                                                         *)
(* Parsing and lookup follow the code literally (AS BUILT), including the  *)
(* corners the documentation does not cover: an alias occurrence REPLACES  *)
(* whatever entry the name had, names next to a wildcard pattern on one    *)
(* line are dropped, an A query for a name that only has AAAA passes       *)
(* through, the question's class is not looked at.  The predicates below   *)
(* are split accordingly: those the documentation bears (checked in every  *)
(* configuration) and the hosts(5) ideal ones (ForwardComplete,            *)
(* PTRInverse), which the as-built parser violates on files in which a     *)
(* name occurs as an alias twice or as alias and primary (Obs_Collide.cfg  *)
(* asserts that they fail = the observation is reproduced on the model).   *)
(*                                                                         *)
(* Deliberate deviations from the code: a bounded number of load           *)
(* goroutines (MaxLoaders); the read of the file is one atomic step;       *)
(* names, addresses and files come from a small universe (MC_*.tla); the   *)
(* spelling dimensions that must not matter (letter case of file and       *)
(* query names, white space, comments, CRLF, zone ids, v4-mapped IPv6,     *)
(* wire / decoded path) are chosen by the replay driver, not by the model. *)
(***************************************************************************)
EXTENDS Naturals, Sequences, FiniteSets, TLC

CONSTANTS
  Names,        \* host names (strings)
  Pats,         \* wildcard patterns ("*.dom")
  Under,        \* Under[p]   = names p covers: the apex and its sub-domains
  Sibling,      \* Sibling[p] = names that merely END in the pattern's text (badexample.com)
  V4, V6,       \* addresses of both families
  CutName,      \* CutName[n] = the name left when a writer dies inside n (a function on some names)
  Files,        \* Files[id] = a whole file: sequence of lines
  InitFile,     \* id of the file present at start-up
  AllowCuts,    \* BOOLEAN: writers may die mid-line
  AllowBad,     \* BOOLEAN: RemoveFile / WriteTooLong enabled
  AllowDisabled,\* BOOLEAN: start-up with a missing file (New returns nil) is an initial state
  MaxLoaders,
  Serialized,   \* FALSE = as built (overlapping loads); TRUE = one load at a time
  Atomic,       \* TRUE = as built (fresh db, one Store); FALSE = mutant: the live tables are rebuilt in place
  KeepOnError,  \* TRUE = as built (a failed load leaves the tables); FALSE = mutant: cleared
  Mut,          \* "none" or the name of a parser / lookup mutant (negative configs)
  Patient,      \* BOOLEAN: the operator writes only when the watcher has nothing left to do (watch scenarios)
  QueriesOn,    \* BOOLEAN: Query is an action of Next (off for replay generation: the driver asks everything)
  QueryNames,   \* the names the Query action ranges over (a subset of QNames)
  QClasses, QFlagSets

VARIABLES disk, tab, okLoaded, pc, snap, sidx, timer, disabled, last, obs

vars == <<disk, tab, okLoaded, pc, snap, sidx, timer, disabled, last, obs>>

Addrs   == V4 \cup V6
Loaders == 1..MaxLoaders
QTypes  == {"A", "AAAA", "CNAME", "PTR", "MX"}      \* MX stands for every other type
QNames  == Names \cup Addrs                          \* an address stands for its reverse name

Junk        == [a |-> "junk", ns |-> <<>>]           \* comment, blank, bad address, single field
Line(a, ns) == [a |-> a, ns |-> ns]

-----------------------------------------------------------------------------
(* load(): the tables, line by line                                          *)

NoEntry  == [on |-> FALSE, v4 |-> <<>>, v6 |-> <<>>, cn |-> "-"]
EmptyTab == [fwd  |-> [n \in Names |-> NoEntry],
             wild |-> <<>>,
             rev  |-> [a \in Addrs |-> <<>>]]

Fam4(a) == IF a \in V4 THEN <<a>> ELSE <<>>
Fam6(a) == IF a \in V6 THEN <<a>> ELSE <<>>

HasPat(ns)   == \E i \in 1..Len(ns) : ns[i] \in Pats
FirstPat(ns) == ns[CHOOSE i \in 1..Len(ns) : ns[i] \in Pats /\ \A j \in 1..(i-1) : ns[j] \notin Pats]

\* entry, exists := db.hosts[primaryName]; append the address; db.reverse[ip] = append(.., primaryName)
AddPrimary(t, a, p) ==
  LET e  == t.fwd[p]
      e4 == IF Mut = "firstonly" /\ e.v4 # <<>> THEN e.v4 ELSE e.v4 \o Fam4(a)
      e6 == IF Mut = "firstonly" /\ e.v6 # <<>> THEN e.v6 ELSE e.v6 \o Fam6(a)
      r  == IF Mut = "revskip" /\ e.on THEN t.rev[a] ELSE Append(t.rev[a], p)
  IN  [t EXCEPT !.fwd[p] = [on |-> TRUE, v4 |-> e4, v6 |-> e6, cn |-> e.cn], !.rev[a] = r]

\* db.hosts[alias] = aliasEntry  -- a fresh entry REPLACES what the name had
AddAlias(t, a, p, al) ==
  IF Mut = "aliasdrop" THEN t
  ELSE [t EXCEPT !.fwd[al] = [on |-> TRUE, v4 |-> Fam4(a), v6 |-> Fam6(a), cn |-> p]]

RECURSIVE AddAliases(_, _, _, _, _)
AddAliases(t, a, p, ns, i) ==
  IF i > Len(ns) THEN t ELSE AddAliases(AddAlias(t, a, p, ns[i]), a, p, ns, i + 1)

AddLine(t, l) ==
  IF l.a \notin Addrs \/ l.ns = <<>> THEN t
  ELSE IF HasPat(l.ns)
       THEN [t EXCEPT !.wild = Append(@, [pat |-> FirstPat(l.ns), v4 |-> Fam4(l.a), v6 |-> Fam6(l.a)])]
       ELSE AddAliases(AddPrimary(t, l.a, l.ns[1]), l.a, l.ns[1], l.ns, 2)

RECURSIVE Build(_, _, _)
Build(t, ls, i) == IF i > Len(ls) THEN t ELSE Build(AddLine(t, ls[i]), ls, i + 1)
Table(ls) == Build(EmptyTab, ls, 1)

-----------------------------------------------------------------------------
(* lookup / lookupKeyed / lookupPTR                                          *)

Pass     == [k |-> "pass",   rr |-> <<>>]
Nodata   == [k |-> "nodata", rr |-> <<>>]
Ans(rr)  == [k |-> "answer", rr |-> rr]

Covers(p, n) == (Mut # "wildoff" /\ n \in Under[p]) \/ (Mut = "wildsibling" /\ n \in Sibling[p])
MinOf(S)     == CHOOSE x \in S : \A y \in S : x <= y
WildHits(t, n, fam) == {i \in 1..Len(t.wild) : Covers(t.wild[i].pat, n) /\ t.wild[i][fam] # <<>>}
WildAny(t, n)       == \E i \in 1..Len(t.wild) : Covers(t.wild[i].pat, n)

LookupAddr(t, n, fam) ==
  IF n \notin Names THEN Pass
  ELSE IF t.fwd[n].on /\ t.fwd[n][fam] # <<>> THEN Ans(t.fwd[n][fam])
  ELSE IF WildHits(t, n, fam) # {} THEN Ans(t.wild[MinOf(WildHits(t, n, fam))][fam])
  ELSE Pass

Lookup(t, n, ty) ==
  CASE ty = "A"     -> LookupAddr(t, n, IF Mut = "famswap" THEN "v6" ELSE "v4")
    [] ty = "AAAA"  -> LookupAddr(t, n, "v6")
    [] ty = "CNAME" -> IF n \in Names /\ t.fwd[n].on /\ t.fwd[n].cn # "-" THEN Ans(<<t.fwd[n].cn>>) ELSE Pass
    [] ty = "PTR"   -> IF n \in Addrs /\ t.rev[n] # <<>> THEN Ans(t.rev[n]) ELSE Pass
    [] OTHER        -> IF Mut = "nodatapass" THEN Pass
                       ELSE IF n \in Names /\ (t.fwd[n].on \/ WildAny(t, n)) THEN Nodata ELSE Pass

\* the reply header of a local answer (ServeDNS / serveWire build it by hand)
Outcome(t, n, ty, cl, fl) ==
  LET o == Lookup(t, n, ty)
  IN  IF o.k = "pass" THEN [k |-> "pass", rr |-> <<>>, aa |-> FALSE, ra |-> FALSE, rd |-> FALSE, cd |-> FALSE]
      ELSE [k |-> o.k, rr |-> o.rr, aa |-> TRUE, ra |-> TRUE, rd |-> "rd" \in fl,
            cd |-> IF Mut = "cdclear" THEN FALSE ELSE "cd" \in fl]

Obs(t) == [q \in QNames \X QTypes |-> Lookup(t, q[1], q[2])]

-----------------------------------------------------------------------------
(* the file system                                                           *)

DiskOK(ls)  == [st |-> "ok", ls |-> ls]
Missing     == [st |-> "missing", ls |-> <<>>]
TooLong(ls) == [st |-> "toolong", ls |-> ls]

CutKinds == {"full", "addr", "name", "alias"}
CutOK(l, cut) ==
  \/ cut = "full"
  \/ /\ AllowCuts /\ l.a \in Addrs /\ l.ns # <<>>
     /\ \/ cut = "addr"
        \/ cut = "name"  /\ l.ns[1] \in DOMAIN CutName
        \/ cut = "alias" /\ Len(l.ns) > 1
CutLine(l, cut) ==
  CASE cut = "full"  -> l
    [] cut = "addr"  -> Junk                            \* "192.0." or "192.0.2.1": fewer than two fields
    [] cut = "name"  -> Line(l.a, <<CutName[l.ns[1]]>>) \* a shorter, different name
    [] cut = "alias" -> Line(l.a, <<l.ns[1]>>)
Written(c, k, cut) == IF k = 0 THEN <<>> ELSE SubSeq(c, 1, k - 1) \o <<CutLine(c[k], cut)>>

Quiescent == timer = "off" /\ \A l \in 1..MaxLoaders : pc[l] = "idle"
Calm      == Patient => Quiescent

Arm == timer' = IF disabled /\ Mut # "disabledarm" THEN timer ELSE "armed"   \* no watcher when New returned nil

WriteFile(id, k, cut) ==
  /\ Calm
  /\ id \in DOMAIN Files /\ k \in 0..Len(Files[id]) /\ cut \in CutKinds
  /\ (k < Len(Files[id]) \/ cut # "full") => AllowCuts   \* anything but the whole file is a crash point
  /\ k = 0 => cut = "full"
  /\ k > 0 => CutOK(Files[id][k], cut)
  /\ disk' = DiskOK(Written(Files[id], k, cut))
  /\ Arm
  /\ UNCHANGED <<tab, okLoaded, pc, snap, sidx, disabled, last, obs>>

RemoveFile ==
  /\ Calm /\ AllowBad /\ disk.st # "missing"
  /\ disk' = Missing
  /\ Arm
  /\ UNCHANGED <<tab, okLoaded, pc, snap, sidx, disabled, last, obs>>

WriteTooLong(id) ==
  /\ Calm /\ AllowBad /\ id \in DOMAIN Files
  /\ disk' = TooLong(Files[id])
  /\ Arm
  /\ UNCHANGED <<tab, okLoaded, pc, snap, sidx, disabled, last, obs>>

-----------------------------------------------------------------------------
(* watchLoop and load()                                                      *)

Busy(l)  == pc[l] \in {"read", "storing"}
MayRun(l) == Serialized => \A m \in Loaders \ {l} : ~Busy(m)

Fire(l) ==
  /\ timer = "armed" /\ pc[l] = "idle"
  /\ \A m \in Loaders : (m < l) => pc[m] # "idle"        \* symmetry: the lowest idle record
  /\ timer' = "off"
  /\ pc' = [pc EXCEPT ![l] = "start"]
  /\ UNCHANGED <<disk, tab, okLoaded, snap, sidx, disabled, last, obs>>

LoadRead(l) ==
  /\ pc[l] = "start" /\ disk.st = "ok" /\ MayRun(l)
  /\ pc' = [pc EXCEPT ![l] = "read"]
  /\ snap' = [snap EXCEPT ![l] = disk.ls]
  /\ UNCHANGED <<disk, tab, okLoaded, sidx, timer, disabled, last, obs>>

LoadFail(l) ==
  /\ pc[l] = "start" /\ disk.st # "ok" /\ MayRun(l)
  /\ pc' = [pc EXCEPT ![l] = "idle"]
  /\ IF KeepOnError THEN UNCHANGED <<tab, obs>>
     ELSE tab' = EmptyTab /\ obs' = Obs(EmptyTab)
  /\ UNCHANGED <<disk, okLoaded, snap, sidx, timer, disabled, last>>

NewTab(l) ==
  LET t == Table(snap[l])
  IN  IF Mut = "revkeep" THEN [t EXCEPT !.rev = [a \in Addrs |-> tab.rev[a] \o t.rev[a]]] ELSE t

LoadStore(l) ==
  /\ Atomic /\ pc[l] = "read"
  /\ tab' = NewTab(l)
  /\ obs' = IF Mut = "obsstale" THEN obs ELSE Obs(tab')
  /\ okLoaded' = snap[l]
  /\ pc' = [pc EXCEPT ![l] = "idle"]
  /\ snap' = [snap EXCEPT ![l] = <<>>]
  /\ UNCHANGED <<disk, sidx, timer, disabled, last>>

\* the mutant: clear the live maps, refill them line by line, readers in between
StoreBegin(l) ==
  /\ ~Atomic /\ pc[l] = "read"
  /\ tab' = EmptyTab /\ obs' = Obs(EmptyTab)
  /\ pc' = [pc EXCEPT ![l] = "storing"]
  /\ sidx' = [sidx EXCEPT ![l] = 1]
  /\ UNCHANGED <<disk, okLoaded, snap, timer, disabled, last>>

StoreLine(l) ==
  /\ ~Atomic /\ pc[l] = "storing"
  /\ IF sidx[l] <= Len(snap[l])
     THEN /\ tab' = AddLine(tab, snap[l][sidx[l]])
          /\ obs' = Obs(tab')
          /\ sidx' = [sidx EXCEPT ![l] = @ + 1]
          /\ UNCHANGED <<okLoaded, pc, snap>>
     ELSE /\ okLoaded' = snap[l]
          /\ pc' = [pc EXCEPT ![l] = "idle"]
          /\ snap' = [snap EXCEPT ![l] = <<>>]
          /\ sidx' = [sidx EXCEPT ![l] = 0]
          /\ UNCHANGED <<tab, obs>>
  /\ UNCHANGED <<disk, timer, disabled, last>>

Query(n, ty, cl, fl) ==
  /\ QueriesOn
  /\ last' = [n |-> n, ty |-> ty, cl |-> cl, fl |-> fl,
              out |-> IF disabled THEN Outcome(EmptyTab, n, ty, cl, fl) ELSE Outcome(tab, n, ty, cl, fl)]
  /\ UNCHANGED <<disk, tab, okLoaded, pc, snap, sidx, timer, disabled, obs>>

NoQuery == [n |-> "-", ty |-> "-", cl |-> "-", fl |-> {},
            out |-> [k |-> "pass", rr |-> <<>>, aa |-> FALSE, ra |-> FALSE, rd |-> FALSE, cd |-> FALSE]]

Init ==
  /\ \/ /\ disabled = FALSE                               \* New(): the initial load succeeded
        /\ disk = DiskOK(Files[InitFile])
        /\ tab = Table(Files[InitFile])
        /\ okLoaded = Files[InitFile]
     \/ /\ AllowDisabled                                  \* New(): the file is missing -> nil handler
        /\ disabled = TRUE
        /\ disk = Missing
        /\ tab = EmptyTab
        /\ okLoaded = <<>>
  /\ obs = Obs(tab)
  /\ pc = [l \in Loaders |-> "idle"]
  /\ snap = [l \in Loaders |-> <<>>]
  /\ sidx = [l \in Loaders |-> 0]
  /\ timer = "off"
  /\ last = NoQuery

Next ==
  \/ \E id \in DOMAIN Files : \E k \in 0..Len(Files[id]), cut \in CutKinds : WriteFile(id, k, cut)
  \/ RemoveFile
  \/ \E id \in DOMAIN Files : WriteTooLong(id)
  \/ \E l \in Loaders : Fire(l) \/ LoadRead(l) \/ LoadFail(l) \/ LoadStore(l) \/ StoreBegin(l) \/ StoreLine(l)
  \/ \E n \in QueryNames, ty \in QTypes, cl \in QClasses, fl \in QFlagSets : Query(n, ty, cl, fl)

Spec == Init /\ [][Next]_vars

-----------------------------------------------------------------------------
(* What the file says (the reference reading of the documented format:       *)
(* "address name [alias ...]", every name on the line gets the address)      *)

RangeOf(s) == {s[i] : i \in 1..Len(s)}
HostLines(ls) == {i \in 1..Len(ls) : ls[i].a \in Addrs /\ ls[i].ns # <<>> /\ ~HasPat(ls[i].ns)}
WildLines(ls) == {i \in 1..Len(ls) : ls[i].a \in Addrs /\ ls[i].ns # <<>> /\ HasPat(ls[i].ns)}

Listed(ls, n, F)     == {ls[i].a : i \in {j \in HostLines(ls) : n \in RangeOf(ls[j].ns) /\ ls[j].a \in F}}
WildListed(ls, n, F) == {ls[i].a : i \in {j \in WildLines(ls) :
                                             ls[j].a \in F /\ \E p \in RangeOf(ls[j].ns) \cap Pats : n \in Under[p]}}
Known(ls, n)       == \E i \in HostLines(ls) : n \in RangeOf(ls[i].ns)
Covered(ls, n)     == \E i \in WildLines(ls) : \E p \in RangeOf(ls[i].ns) \cap Pats : n \in Under[p]
OnlyPrimary(ls, n) == Known(ls, n) /\ \A i \in HostLines(ls) : n \in RangeOf(ls[i].ns) => (ls[i].ns[1] = n /\ \A j \in 2..Len(ls[i].ns) : ls[i].ns[j] # n)
OnlyAlias(ls, n)   == Known(ls, n) /\ \A i \in HostLines(ls) : ls[i].ns[1] # n
NamesAt(ls, a)     == UNION {RangeOf(ls[i].ns) : i \in {j \in HostLines(ls) : ls[j].a = a}}
PrimariesAt(ls, a) == {ls[i].ns[1] : i \in {j \in HostLines(ls) : ls[j].a = a}}
AddrSeq(ls, n, F)  == \* the addresses of family F on the lines whose first name is n, in file order
  LET RECURSIVE G(_)
      G(i) == IF i > Len(ls) THEN <<>>
              ELSE IF i \in HostLines(ls) /\ ls[i].ns[1] = n /\ ls[i].a \in F THEN <<ls[i].a>> \o G(i + 1) ELSE G(i + 1)
  IN  G(1)

Live == IF disabled THEN EmptyTab ELSE tab
FamOf(ty) == IF ty = "A" THEN V4 ELSE V6

-----------------------------------------------------------------------------
(* Predicates the documentation bears                                        *)

TypeOK ==
  /\ disk.st \in {"ok", "missing", "toolong"}
  /\ pc \in [Loaders -> {"idle", "start", "read", "storing"}]
  /\ timer \in {"off", "armed"}
  /\ disabled \in BOOLEAN
  /\ last.out.k \in {"pass", "nodata", "answer"}

\* readers see the table of ONE successfully loaded file, never a half-built one, never a mixture
TabIsSnapshot == tab = Table(okLoaded)
ObsIsLookup   == obs = Obs(tab)

\* an address in an answer is one the loaded file lists for the name (directly or through a covering pattern)
AnswerSound ==
  \A n \in Names, ty \in {"A", "AAAA"} :
    LET o == Lookup(Live, n, ty) IN
    o.k = "answer" => RangeOf(o.rr) \subseteq (Listed(okLoaded, n, FamOf(ty)) \cup WildListed(okLoaded, n, FamOf(ty)))

\* a name the file never mentions and no pattern covers passes through, whatever is asked
Untouched ==
  \A n \in Names, ty \in QTypes :
    (~Known(okLoaded, n) /\ ~Covered(okLoaded, n)) => Lookup(Live, n, ty).k = "pass"

\* "*.example.com must match the apex and any sub-domain": a name the file does not list itself but a pattern
\* with an address of the family covers is answered from the patterns
WildcardAnswers ==
  \A n \in Names, ty \in {"A", "AAAA"} :
    (~disabled /\ ~Known(okLoaded, n) /\ WildListed(okLoaded, n, FamOf(ty)) # {})
      => LET o == Lookup(Live, n, ty) IN o.k = "answer" /\ RangeOf(o.rr) \subseteq WildListed(okLoaded, n, FamOf(ty))

\* "multiple IPs": a name that only ever stands first on its lines answers with all its addresses, in file order
PrimaryComplete ==
  \A n \in Names, ty \in {"A", "AAAA"} :
    (OnlyPrimary(okLoaded, n) /\ Listed(okLoaded, n, FamOf(ty)) # {})
      => Lookup(Live, n, ty) = Ans(AddrSeq(okLoaded, n, FamOf(ty)))

\* "any other type reports bare existence, which the callers turn into NODATA"
NodataKnown ==
  \A n \in Names : (~disabled /\ Known(okLoaded, n)) => Lookup(Live, n, "MX").k = "nodata"

\* an alias answers CNAME with the first name of a line it stands on
AliasCname ==
  \A n \in Names :
    (~disabled /\ OnlyAlias(okLoaded, n))
      => LET o == Lookup(Live, n, "CNAME") IN
         /\ o.k = "answer" /\ Len(o.rr) = 1
         /\ \E i \in HostLines(okLoaded) : n \in RangeOf(okLoaded[i].ns) /\ okLoaded[i].ns[1] = o.rr[1]

\* PTR: only names the file gives that address, and at least every first name
PTRSound ==
  \A a \in Addrs : LET o == Lookup(Live, a, "PTR") IN
    o.k = "answer" => RangeOf(o.rr) \subseteq NamesAt(okLoaded, a)
PTRComplete ==
  \A a \in Addrs : ~disabled =>
    LET o == Lookup(Live, a, "PTR") IN
    IF PrimariesAt(okLoaded, a) = {} THEN o.k = "pass"
    ELSE o.k = "answer" /\ PrimariesAt(okLoaded, a) \subseteq RangeOf(o.rr)

\* the reply header of a local answer: AA and RA set, RD and CD copied from the query
HeaderDiscipline ==
  last.out.k # "pass" =>
    /\ last.out.aa /\ last.out.ra
    /\ last.out.rd = ("rd" \in last.fl)
    /\ last.out.cd = ("cd" \in last.fl)
HeaderAll ==
  \A n \in QNames, ty \in QTypes, cl \in QClasses, fl \in QFlagSets :
    LET o == Outcome(Live, n, ty, cl, fl) IN
    o.k # "pass" => (o.aa /\ o.ra /\ o.rd = ("rd" \in fl) /\ o.cd = ("cd" \in fl))

\* a failed load leaves the published tables alone
FailKeepsTable == [][(\E l \in Loaders : LoadFail(l)) => UNCHANGED tab]_vars

\* a handler that could not load at start-up stays out of the way for good
DisabledPasses == disabled => (tab = EmptyTab /\ timer = "off")

\* "Auto reloads with fs watch": once the watcher has nothing left to do, the tables are the file's
Converged == (Quiescent /\ ~disabled /\ disk.st = "ok") => tab = Table(disk.ls)

-----------------------------------------------------------------------------
(* The hosts(5) ideal the as-built parser does NOT meet on every file        *)

\* every address the file lists for a name is in its answer
ForwardComplete ==
  \A n \in Names, ty \in {"A", "AAAA"} :
    (~disabled /\ Listed(okLoaded, n, FamOf(ty)) # {})
      => LET o == Lookup(Live, n, ty) IN o.k = "answer" /\ Listed(okLoaded, n, FamOf(ty)) \subseteq RangeOf(o.rr)

\* PTR is the inverse of the forward table
PTRInverse ==
  \A a \in Addrs : LET o == Lookup(Live, a, "PTR") IN
    o.k = "answer" =>
      \A n \in RangeOf(o.rr) :
        LET f == Lookup(Live, n, IF a \in V4 THEN "A" ELSE "AAAA") IN f.k = "answer" /\ a \in RangeOf(f.rr)

\* a name with an entry is never handed to the resolver for an address type it lacks
NoLeak ==
  \A n \in Names, ty \in {"A", "AAAA"} : (~disabled /\ Known(okLoaded, n)) => Lookup(Live, n, ty).k # "pass"
=============================================================================
