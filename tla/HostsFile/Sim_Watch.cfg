\* -simulate: a patient operator and the watcher (one change at a time)
SPECIFICATION Spec
CONSTANTS
  Names <- U_Names
  Pats <- U_Pats
  Under <- U_Under
  Sibling <- U_Sibling
  V4 <- U_V4
  V6 <- U_V6
  CutName <- U_CutName
  Files <- All
  QueryNames <- FewNames
  QClasses <- OneClass
  QFlagSets <- NoFlags
  InitFile = "K1"
  AllowCuts = TRUE
  AllowBad = TRUE
  AllowDisabled = FALSE
  MaxLoaders = 1
  Serialized = FALSE
  Atomic = TRUE
  KeepOnError = TRUE
  Mut = "none"
  Patient = TRUE
  QueriesOn = FALSE
INVARIANT TypeOK
CHECK_DEADLOCK FALSE
