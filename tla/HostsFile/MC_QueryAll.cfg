\* thorough: Query(name, type, class, flags) as an action: the reply header of a local answer
SPECIFICATION Spec
CONSTANTS
  Names <- U_Names
  Pats <- U_Pats
  Under <- U_Under
  Sibling <- U_Sibling
  V4 <- U_V4
  V6 <- U_V6
  CutName <- U_CutName
  Files <- Tiny
  QueryNames <- AllQNames
  QClasses <- TwoClasses
  QFlagSets <- SomeFlags
  InitFile = "K2"
  AllowCuts = FALSE
  AllowBad = FALSE
  AllowDisabled = FALSE
  MaxLoaders = 1
  Serialized = FALSE
  Atomic = TRUE
  KeepOnError = TRUE
  Mut = "none"
  Patient = FALSE
  QueriesOn = TRUE
INVARIANT TypeOK
INVARIANT TabIsSnapshot
INVARIANT ObsIsLookup
INVARIANT AnswerSound
INVARIANT Untouched
INVARIANT WildcardAnswers
INVARIANT PrimaryComplete
INVARIANT NodataKnown
INVARIANT AliasCname
INVARIANT PTRSound
INVARIANT PTRComplete
INVARIANT HeaderAll
INVARIANT DisabledPasses
INVARIANT HeaderDiscipline
PROPERTY FailKeepsTable
CHECK_DEADLOCK FALSE
