\* as built: PTR keeps what the forward entry lost -> PTRInverse fails
SPECIFICATION Spec
CONSTANTS
  Names <- U_Names
  Pats <- U_Pats
  Under <- U_Under
  Sibling <- U_Sibling
  V4 <- U_V4
  V6 <- U_V6
  CutName <- U_CutName
  Files <- Collide
  QueryNames <- FewNames
  QClasses <- OneClass
  QFlagSets <- NoFlags
  InitFile = "K0"
  AllowCuts = FALSE
  AllowBad = FALSE
  AllowDisabled = FALSE
  MaxLoaders = 1
  Serialized = FALSE
  Atomic = TRUE
  KeepOnError = TRUE
  Mut = "none"
  Patient = FALSE
  QueriesOn = FALSE
INVARIANT PTRInverse
CHECK_DEADLOCK FALSE
