\* model mutant: must violate HeaderAll
SPECIFICATION Spec
CONSTANTS
  Names <- U_Names
  Pats <- U_Pats
  Under <- U_Under
  Sibling <- U_Sibling
  V4 <- U_V4
  V6 <- U_V6
  CutName <- U_CutName
  Files <- Tiny
  QueryNames <- FewNames
  QClasses <- OneClass
  QFlagSets <- SomeFlags
  InitFile = "K2"
  AllowCuts = FALSE
  AllowBad = FALSE
  AllowDisabled = TRUE
  MaxLoaders = 1
  Serialized = FALSE
  Atomic = TRUE
  KeepOnError = TRUE
  Mut = "cdclear"
  Patient = FALSE
  QueriesOn = FALSE
INVARIANT HeaderAll
CHECK_DEADLOCK FALSE
