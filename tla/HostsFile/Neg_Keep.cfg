\* model mutant: must violate FailKeepsTable
SPECIFICATION Spec
CONSTANTS
  Names <- U_Names
  Pats <- U_Pats
  Under <- U_Under
  Sibling <- U_Sibling
  V4 <- U_V4
  V6 <- U_V6
  CutName <- U_CutName
  Files <- Tiny
  QueryNames <- FewNames
  QClasses <- OneClass
  QFlagSets <- NoFlags
  InitFile = "K2"
  AllowCuts = FALSE
  AllowBad = TRUE
  AllowDisabled = TRUE
  MaxLoaders = 1
  Serialized = FALSE
  Atomic = TRUE
  KeepOnError = FALSE
  Mut = "none"
  Patient = FALSE
  QueriesOn = FALSE
PROPERTY FailKeepsTable
CHECK_DEADLOCK FALSE
