\* thorough: every file of the universe incl. the alias collisions (documented predicates only)
SPECIFICATION Spec
CONSTANTS
  Names <- U_Names
  Pats <- U_Pats
  Under <- U_Under
  Sibling <- U_Sibling
  V4 <- U_V4
  V6 <- U_V6
  CutName <- U_CutName
  Files <- All
  QueryNames <- FewNames
  QClasses <- OneClass
  QFlagSets <- NoFlags
  InitFile = "K1"
  AllowCuts = TRUE
  AllowBad = TRUE
  AllowDisabled = TRUE
  MaxLoaders = 1
  Serialized = FALSE
  Atomic = TRUE
  KeepOnError = TRUE
  Mut = "none"
  Patient = FALSE
  QueriesOn = FALSE
INVARIANT TypeOK
INVARIANT TabIsSnapshot
INVARIANT ObsIsLookup
INVARIANT AnswerSound
INVARIANT Untouched
INVARIANT WildcardAnswers
INVARIANT PrimaryComplete
INVARIANT NodataKnown
INVARIANT AliasCname
INVARIANT PTRSound
INVARIANT PTRComplete
INVARIANT HeaderAll
INVARIANT DisabledPasses
INVARIANT Converged
PROPERTY FailKeepsTable
CHECK_DEADLOCK FALSE
