\* model mutant: must violate DisabledPasses
SPECIFICATION Spec
CONSTANTS
  Names <- U_Names
  Pats <- U_Pats
  Under <- U_Under
  Sibling <- U_Sibling
  V4 <- U_V4
  V6 <- U_V6
  CutName <- U_CutName
  Files <- Tiny
  QueryNames <- FewNames
  QClasses <- OneClass
  QFlagSets <- NoFlags
  InitFile = "K0"
  AllowCuts = FALSE
  AllowBad = FALSE
  AllowDisabled = TRUE
  MaxLoaders = 1
  Serialized = FALSE
  Atomic = TRUE
  KeepOnError = TRUE
  Mut = "disabledarm"
  Patient = FALSE
  QueriesOn = FALSE
INVARIANT DisabledPasses
CHECK_DEADLOCK FALSE
