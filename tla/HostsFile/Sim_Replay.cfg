\* -simulate: as built, every file, crash points, two loaders
SPECIFICATION Spec
CONSTANTS
  Names <- U_Names
  Pats <- U_Pats
  Under <- U_Under
  Sibling <- U_Sibling
  V4 <- U_V4
  V6 <- U_V6
  CutName <- U_CutName
  Files <- All
  QueryNames <- FewNames
  QClasses <- OneClass
  QFlagSets <- NoFlags
  InitFile = "K1"
  AllowCuts = TRUE
  AllowBad = TRUE
  AllowDisabled = TRUE
  MaxLoaders = 2
  Serialized = FALSE
  Atomic = TRUE
  KeepOnError = TRUE
  Mut = "none"
  Patient = FALSE
  QueriesOn = FALSE
INVARIANT TypeOK
ACTION_CONSTRAINT SimRhythm
CHECK_DEADLOCK FALSE
