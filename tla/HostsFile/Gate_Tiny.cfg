\* quick: the as-built graph (files K0, K2) whose every edge is replayed on the real code
SPECIFICATION Spec
CONSTANTS
  Names <- U_Names
  Pats <- U_Pats
  Under <- U_Under
  Sibling <- U_Sibling
  V4 <- U_V4
  V6 <- U_V6
  CutName <- U_CutName
  Files <- Tiny
  QueryNames <- FewNames
  QClasses <- OneClass
  QFlagSets <- NoFlags
  InitFile = "K2"
  AllowCuts = FALSE
  AllowBad = TRUE
  AllowDisabled = FALSE
  MaxLoaders = 2
  Serialized = FALSE
  Atomic = TRUE
  KeepOnError = TRUE
  Mut = "none"
  Patient = FALSE
  QueriesOn = FALSE
INVARIANT TypeOK
CHECK_DEADLOCK FALSE
