---------------------------- MODULE MC_HostsFile ----------------------------
(* The universe and the file menus of the HostsFile configurations.          *)
(* checks/xhosts.py maps the abstract names to real spellings:               *)
(*   h1 h1.lan | h2 h2.lan | al al.lan | dom dom.lan | xdom x.dom.lan        *)
(*   baddom baddom.lan | h h | nx nx.lan | wdom *.dom.lan                    *)
(*   a1 192.0.2.1 | a2 192.0.2.2 | b1 2001:db8::1                            *)
EXTENDS HostsFile

U_Names   == {"h1", "h2", "al", "dom", "xdom", "baddom", "h", "nx"}
U_Pats    == {"wdom"}
U_Under   == [p \in U_Pats |-> {"dom", "xdom"}]
U_Sibling == [p \in U_Pats |-> {"baddom"}]
U_V4      == {"a1", "a2"}
U_V6      == {"b1"}
U_CutName == ("h1" :> "h") @@ ("h2" :> "h")

F_K0 == <<>>
F_K1 == <<Line("a1", <<"h1">>), Line("b1", <<"h1">>), Line("a2", <<"h1">>)>>
F_K2 == <<Line("a1", <<"h1", "al">>), Line("a2", <<"h2">>)>>
F_K3 == <<Line("a1", <<"wdom">>), Line("b1", <<"xdom">>), Junk>>
F_K4 == <<Line("a2", <<"h2", "al">>), Line("b1", <<"wdom">>), Line("a1", <<"baddom">>)>>
\* one address for two hosts
F_K5 == <<Line("a1", <<"h1">>), Line("a1", <<"h2">>), Line("b1", <<"h2", "al">>)>>
\* files in which a name occurs as an alias twice, or as alias and as first name
F_C1 == <<Line("a1", <<"al">>), Line("a2", <<"h2", "al">>)>>
F_C2 == <<Line("a1", <<"h1", "al">>), Line("b1", <<"h1", "al">>)>>
F_C3 == <<Line("a2", <<"h2", "al">>), Line("a1", <<"al">>)>>
\* a name next to a pattern on one line
F_W1 == <<Line("a1", <<"wdom", "h2">>), Line("a2", <<"h1">>)>>

Rich    == [K0 |-> F_K0, K1 |-> F_K1, K2 |-> F_K2, K3 |-> F_K3, K4 |-> F_K4, K5 |-> F_K5]
Mid     == [K0 |-> F_K0, K2 |-> F_K2, K3 |-> F_K3]
Ptr     == [K0 |-> F_K0, K5 |-> F_K5]
Small   == [K0 |-> F_K0, K1 |-> F_K1, K2 |-> F_K2]
Tiny    == [K0 |-> F_K0, K2 |-> F_K2]
Wild    == [K0 |-> F_K0, K3 |-> F_K3]
Collide == [K0 |-> F_K0, C1 |-> F_C1, C2 |-> F_C2, C3 |-> F_C3, W1 |-> F_W1]
All     == [K0 |-> F_K0, K1 |-> F_K1, K2 |-> F_K2, K3 |-> F_K3, K4 |-> F_K4, K5 |-> F_K5,
            C1 |-> F_C1, C2 |-> F_C2, C3 |-> F_C3, W1 |-> F_W1]

FewNames   == {"h1", "nx", "a1"}
AllQNames  == U_Names \cup U_V4 \cup U_V6
OneClass   == {"IN"}
TwoClasses == {"IN", "CH"}
NoFlags    == {{}}
TwoFlags   == {{}, {"rd", "cd"}}
SomeFlags  == {{}, {"rd"}, {"rd", "cd"}, {"cd", "do", "ad"}}
\* -simulate picks uniformly among the successor states and the write menu is large: let the operator write on
\* every third step only, as long as a load() has something to do
LoaderWork == (timer = "armed" /\ \E l \in Loaders : pc[l] = "idle") \/ \E l \in Loaders : pc[l] \in {"start", "read"}
SimRhythm  == (disk' # disk) => (TLCGet("level") % 3 = 0 \/ ~LoaderWork)
=============================================================================
