SPECIFICATION Spec
CONSTANTS
  AsBuilt = FALSE
  Mut = "remove-noop"
  Toks <- NoTok
  Spell <- OneSpell
  Auths <- AnonOnly
  QPairs <- PairsSmall
  Batches <- BatchesSmall
PROPERTY RemoveEffect
CHECK_DEADLOCK FALSE
