SPECIFICATION Spec
CONSTANTS
  AsBuilt = FALSE
  Mut = "auth-skip"
  Toks <- YesTok
  Spell <- OneSpell
  Auths <- ThreeAuth
  QPairs <- PairsSmall
  Batches <- BatchesSmall
PROPERTY Unauth
CHECK_DEADLOCK FALSE
