SPECIFICATION Spec
CONSTANTS
  AsBuilt = FALSE
  Mut = "set-nostore"
  Toks <- NoTok
  Spell <- OneSpell
  Auths <- AnonOnly
  QPairs <- PairsSmall
  Batches <- BatchesSmall
INVARIANT SetThenBlocked
CHECK_DEADLOCK FALSE
