SPECIFICATION Spec
CONSTANTS
  AsBuilt = FALSE
  Mut = "no-fill"
  Toks <- NoTok
  Spell <- OneSpell
  Auths <- AnonOnly
  QPairs <- PairsSmall
  Batches <- BatchesSmall
PROPERTY QueryHonest
CHECK_DEADLOCK FALSE
