SPECIFICATION Spec
CONSTANTS
  AsBuilt = TRUE
  Mut = "none"
  Toks <- NoTok
  Spell <- OneSpell
  Auths <- AnonOnly
  QPairs <- PairsSmall
  Batches <- BatchesSmall
PROPERTY SetSaysDuplicate
CHECK_DEADLOCK FALSE
