---- MODULE MC_Api_TTrace_1790436395 ----
EXTENDS MC_Api, Sequences, TLCExt, Toolbox, Naturals, TLC

_expression ==
    LET MC_Api_TEExpression == INSTANCE MC_Api_TEExpression
    IN MC_Api_TEExpression!expression
----

_trace ==
    LET MC_Api_TETrace == INSTANCE MC_Api_TETrace
    IN MC_Api_TETrace!trace
----

_inv ==
    ~(
        TLCGet("level") = Len(_TETrace)
        /\
        tok = (FALSE)
        /\
        res = ([au |-> "none", op |-> "query", arg |-> <<"s", "A">>, sp |-> "plain", ok |-> TRUE, status |-> 0, flag |-> "cache"])
        /\
        cache = ({<<"s", "A">>})
        /\
        bl = ({"s"})
    )
----

_init ==
    /\ bl = _TETrace[1].bl
    /\ tok = _TETrace[1].tok
    /\ res = _TETrace[1].res
    /\ cache = _TETrace[1].cache
----

_next ==
    /\ \E i,j \in DOMAIN _TETrace:
        /\ \/ /\ j = i + 1
              /\ i = TLCGet("level")
        /\ bl  = _TETrace[i].bl
        /\ bl' = _TETrace[j].bl
        /\ tok  = _TETrace[i].tok
        /\ tok' = _TETrace[j].tok
        /\ res  = _TETrace[i].res
        /\ res' = _TETrace[j].res
        /\ cache  = _TETrace[i].cache
        /\ cache' = _TETrace[j].cache

\* Uncomment the ASSUME below to write the states of the error trace
\* to the given file in Json format. Note that you can pass any tuple
\* to `JsonSerialize`. For example, a sub-sequence of _TETrace.
    \* ASSUME
    \*     LET J == INSTANCE Json
    \*         IN J!JsonSerialize("MC_Api_TTrace_1790436395.json", _TETrace)

=============================================================================

 Note that you can extract this module `MC_Api_TEExpression`
  to a dedicated file to reuse `expression` (the module in the 
  dedicated `MC_Api_TEExpression.tla` file takes precedence 
  over the module `MC_Api_TEExpression` below).

---- MODULE MC_Api_TEExpression ----
EXTENDS MC_Api, Sequences, TLCExt, Toolbox, Naturals, TLC

expression == 
    [
        \* To hide variables of the `MC_Api` spec from the error trace,
        \* remove the variables below.  The trace will be written in the order
        \* of the fields of this record.
        bl |-> bl
        ,tok |-> tok
        ,res |-> res
        ,cache |-> cache
        
        \* Put additional constant-, state-, and action-level expressions here:
        \* ,_stateNumber |-> _TEPosition
        \* ,_blUnchanged |-> bl = bl'
        
        \* Format the `bl` variable as Json value.
        \* ,_blJson |->
        \*     LET J == INSTANCE Json
        \*     IN J!ToJson(bl)
        
        \* Lastly, you may build expressions over arbitrary sets of states by
        \* leveraging the _TETrace operator.  For example, this is how to
        \* count the number of times a spec variable changed up to the current
        \* state in the trace.
        \* ,_blModCount |->
        \*     LET F[s \in DOMAIN _TETrace] ==
        \*         IF s = 1 THEN 0
        \*         ELSE IF _TETrace[s].bl # _TETrace[s-1].bl
        \*             THEN 1 + F[s-1] ELSE F[s-1]
        \*     IN F[_TEPosition - 1]
    ]

=============================================================================



Parsing and semantic processing can take forever if the trace below is long.
 In this case, it is advised to uncomment the module below to deserialize the
 trace from a generated binary file.

\*
\*---- MODULE MC_Api_TETrace ----
\*EXTENDS MC_Api, IOUtils, TLC
\*
\*trace == IODeserialize("MC_Api_TTrace_1790436395.bin", TRUE)
\*
\*=============================================================================
\*

---- MODULE MC_Api_TETrace ----
EXTENDS MC_Api, TLC

trace == 
    <<
    ([tok |-> FALSE,res |-> [au |-> "none", op |-> "init", arg |-> "", sp |-> "plain", ok |-> TRUE, status |-> 0, flag |-> FALSE],cache |-> {},bl |-> {}]),
    ([tok |-> FALSE,res |-> [au |-> "none", op |-> "query", arg |-> <<"s", "A">>, sp |-> "plain", ok |-> TRUE, status |-> 0, flag |-> "upstream"],cache |-> {<<"s", "A">>},bl |-> {}]),
    ([tok |-> FALSE,res |-> [au |-> "none", op |-> "set", arg |-> "s", sp |-> "plain", ok |-> TRUE, status |-> 200, flag |-> TRUE],cache |-> {<<"s", "A">>},bl |-> {"s"}]),
    ([tok |-> FALSE,res |-> [au |-> "none", op |-> "query", arg |-> <<"s", "A">>, sp |-> "plain", ok |-> TRUE, status |-> 0, flag |-> "cache"],cache |-> {<<"s", "A">>},bl |-> {"s"}])
    >>
----


=============================================================================

---- CONFIG MC_Api_TTrace_1790436395 ----
CONSTANTS
    AsBuilt = FALSE
    Mut = "cache-first"
    Toks <- NoTok
    Spell <- OneSpell
    Auths <- AnonOnly
    QPairs <- PairsSmall
    Batches <- BatchesSmall

INVARIANT
    _inv

CHECK_DEADLOCK
    \* CHECK_DEADLOCK off because of PROPERTY or INVARIANT above.
    FALSE

INIT
    _init

NEXT
    _next

CONSTANT
    _TETrace <- _trace

ALIAS
    _expression
=============================================================================
\* Generated on Sat Sep 26 15:26:38 UTC 2026