SPECIFICATION Spec
CONSTANTS
  AsBuilt = FALSE
  Mut = "purge-noop"
  Toks <- NoTok
  Spell <- OneSpell
  Auths <- AnonOnly
  QPairs <- PairsSmall
  Batches <- BatchesSmall
PROPERTY PurgeExact
CHECK_DEADLOCK FALSE
