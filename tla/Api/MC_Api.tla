------------------------------ MODULE MC_Api ------------------------------
EXTENDS Api

NoTok   == {FALSE}
YesTok  == {TRUE}
AnyTok  == {TRUE, FALSE}
OneSpell == {"plain"}
AllSpell == {"plain", "dot", "upper"}
AnonOnly == {"none"}
ThreeAuth == {"none", "good", "bad"}
AllAuth == {"none", "good", "bad", "malformed", "basic"}
\* cacheable questions of the exhaustive configs / of the walks
PairsSmall == {<<"s", "A">>, <<"s", "MX">>, <<"x", "A">>, <<"o", "A">>}
PairsAll   == {<<"s", "A">>, <<"s", "MX">>, <<"x", "A">>, <<"o", "A">>, <<"o", "MX">>, <<"e", "A">>, <<"wl", "A">>, <<"d", "A">>}
PairsMid   == {<<"s", "A">>, <<"s", "MX">>, <<"x", "A">>, <<"o", "A">>, <<"o", "MX">>, <<"wl", "A">>}
BatchesSmall == {{"d", "s"}, {"w", "wl"}, {"o"}, {"d", "o"}}
BatchesAll == {K \in SUBSET Keys : Cardinality(K) \in 1..3}

(* -simulate only: a rhythm over the level so that queries, mutators, purges and probes all appear, and four of five
   API calls carry a valid token *)
SimRhythm ==
    LET l == TLCGet("level") IN
    /\ (l % 4 = 0) => res'.op = "query"
    /\ (l % 4 = 1) => res'.op \in {"set", "remove", "setbatch", "removebatch"}
    /\ (l % 8 = 2) => /\ res'.op \in {"purge", "purgebad"}
                       /\ (cache # {} /\ res'.op = "purge") => res'.arg \in cache
    /\ (l % 8 = 6) => res'.op \in {"exists", "get", "metrics", "emptybatch"}
    /\ (l % 5 # 1) => res'.ok
=============================================================================
