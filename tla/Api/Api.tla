-------------------------------- MODULE Api --------------------------------
(* The HTTP management API of sdns (api/api.go) as a sequential state machine.

   Statement = the code's own documentation: api/README.md (Authentication, Endpoints, Blocklist, Bulk operations,
   Cache purge), the doc comment of blocklist.BlockList ("a bare domain blocks that exact name AND every subdomain",
   "*.example.com blocks subdomains only, not the apex"), Exists ("whitelist overrides every block"), SetBatch /
   RemoveBatch, middleware.Purger.

   State: the blocklist (abstract keys), the cache (abstract <<name, type>> pairs), whether a bearer token is configured,
   and `res` = the last request with its outcome (so that every documented property is a state or action predicate).

   Names (the driver chooses the spellings: plain, trailing dot, upper case):
     d  = a domain                 s = a sub-domain of d          o = an unrelated name
     w  = the wildcard key "*.e"   e = the wildcard's apex        x = a name below e
     wl = a whitelisted name (configuration)

   AsBuilt = TRUE  : the model answers as the code does where the code departs from its README
                     (set / set-batch count a key that is already present as added; get never finds a wildcard key).
   AsBuilt = FALSE : the documented behaviour.
   Mut             : model mutants (negative twins); "none" = the model itself. *)
EXTENDS Naturals, FiniteSets, TLC

CONSTANTS AsBuilt, Mut, Toks, Spell, Auths, QPairs, Batches

Keys   == {"d", "s", "w", "o", "wl"}        \* what set / remove / get are called with
ExArgs == Keys \cup {"e", "x"}              \* what exists is asked about

VARIABLES bl, cache, tok, res
vars == <<bl, cache, tok, res>>

(* the documented matching rule: exact name + every subdomain; wildcard = subdomains only; whitelist wins *)
BlockedDoc(b, n) ==
    CASE n = "d" -> "d" \in b
      [] n = "s" -> "s" \in b \/ "d" \in b
      [] n = "x" -> "w" \in b
      [] n = "w" -> "w" \in b          \* the key "*.e" itself is a name below e
      [] n = "o" -> "o" \in b
      [] OTHER   -> FALSE              \* e: apex of the wildcard; wl: whitelisted

ExistsVal(b, n) == IF Mut = "exists-exact" THEN n \in b ELSE BlockedDoc(b, n)

AuthOK(au) == (~tok) \/ au = "good"

Nothing == [op |-> "init", arg |-> "", sp |-> "plain", au |-> "none", ok |-> TRUE, status |-> 0, flag |-> FALSE]

Init == /\ bl = {} /\ cache = {} /\ tok \in Toks /\ res = Nothing

(* one API request: the token gate, then the endpoint's effect *)
Api(op, arg, sp, au, st, fl, b2, c2) ==
    LET pass == AuthOK(au) \/ (Mut = "auth-skip" /\ op = "set") \/ (Mut = "auth-skip-purge" /\ op = "purge") IN
    /\ tok' = tok
    /\ IF pass
       THEN /\ bl' = b2 /\ cache' = c2
            /\ res' = [op |-> op, arg |-> arg, sp |-> sp, au |-> au, ok |-> AuthOK(au), status |-> st, flag |-> fl]
       ELSE /\ bl' = (IF Mut = "unauth-mutates" /\ op = "remove" THEN b2 ELSE bl) /\ cache' = cache
            /\ res' = [op |-> op, arg |-> arg, sp |-> sp, au |-> au, ok |-> FALSE, status |-> 401, flag |-> FALSE]

Set(k, sp, au) ==
    LET refused == k = "wl"
        b2 == IF refused \/ Mut = "set-nostore" THEN bl ELSE bl \cup {k}
        fl == IF refused THEN FALSE ELSE IF AsBuilt THEN TRUE ELSE k \notin bl
    IN Api("set", k, sp, au, 200, fl, b2, cache)

Remove(k, sp, au) ==
    LET b2 == IF Mut = "remove-family" /\ k = "s" THEN bl \ {"s", "d"}
              ELSE IF Mut = "remove-noop" THEN bl ELSE bl \ {k}
    IN Api("remove", k, sp, au, 200, k \in bl, b2, cache)

Exists(k, sp, au) == Api("exists", k, sp, au, 200, ExistsVal(bl, k), bl, cache)

Get(k, sp, au) ==
    LET hit == k \in bl /\ (AsBuilt => k # "w")
    IN Api("get", k, sp, au, IF hit THEN 200 ELSE 404, hit, bl, cache)

SetBatch(K, au) ==
    LET can   == K \ {"wl"}
        added == IF Mut = "batch-count" THEN Cardinality(K)
                 ELSE IF AsBuilt THEN Cardinality(can) ELSE Cardinality(can \ bl)
    IN Api("setbatch", K, "plain", au, 200, <<Cardinality(K), added, Cardinality(K) - added>>,
           IF Mut = "batch-partial" /\ Cardinality(can) > 1 THEN bl \cup {CHOOSE k \in can : TRUE} ELSE bl \cup can, cache)

RemoveBatch(K, au) ==
    LET removed == Cardinality(K \cap bl)
    IN Api("removebatch", K, "plain", au, 200, <<Cardinality(K), removed, Cardinality(K) - removed>>, bl \ K, cache)

EmptyBatch(which, au) == Api("emptybatch", which, "plain", au, 400, FALSE, bl, cache)

Purge(p, sp, au) ==
    LET c2 == IF Mut = "purge-alltypes" THEN {q \in cache : q[1] # p[1]}
              ELSE IF Mut = "purge-noop" THEN cache ELSE cache \ {p}
    IN Api("purge", p, sp, au, 200, TRUE, bl, c2)

PurgeBad(n, sp, au) ==
    Api("purgebad", n, sp, au, 400, FALSE, bl, IF Mut = "badtype-purges" THEN {q \in cache : q[1] # n} ELSE cache)

Metrics(au) == Api("metrics", "", "plain", au, 200, TRUE, bl, cache)

(* a DNS query through the chain: blocklist ahead of the cache, the cache ahead of the upstream *)
Query(p, sp) ==
    LET out == IF BlockedDoc(bl, p[1]) /\ ~(Mut = "cache-first" /\ p \in cache) THEN "blocked"
               ELSE IF p \in cache THEN "cache" ELSE "upstream"
    IN /\ bl' = bl /\ tok' = tok
       /\ cache' = IF out = "upstream" /\ Mut # "no-fill" THEN cache \cup {p} ELSE cache
       /\ res' = [op |-> "query", arg |-> p, sp |-> sp, au |-> "none", ok |-> TRUE, status |-> 0, flag |-> out]

Next ==
    \/ \E k \in Keys, sp \in Spell, au \in Auths : Set(k, sp, au) \/ Remove(k, sp, au) \/ Get(k, sp, au)
    \/ \E k \in ExArgs, sp \in Spell, au \in Auths : Exists(k, sp, au)
    \/ \E K \in Batches, au \in Auths : SetBatch(K, au) \/ RemoveBatch(K, au)
    \/ \E wh \in {"set", "remove"}, au \in Auths : EmptyBatch(wh, au)
    \/ \E p \in QPairs, sp \in Spell, au \in Auths : Purge(p, sp, au) \/ PurgeBad(p[1], sp, au)
    \/ \E au \in Auths : Metrics(au)
    \/ \E p \in QPairs, sp \in Spell : Query(p, sp)

Spec == Init /\ [][Next]_vars

TypeOK == /\ bl \subseteq Keys /\ cache \subseteq QPairs /\ tok \in BOOLEAN
          /\ res.status \in {0, 200, 400, 401, 404}

---------------------------------------------------------------------------
(* README, Authentication: "Missing, malformed, or mismatched headers get 401"; an unauthenticated call changes nothing *)
Unauth   == [][ (~res'.ok) => (res'.status = 401 /\ bl' = bl /\ cache' = cache) ]_vars
AuthPass == [][ (res'.ok /\ res'.op # "query") => res'.status # 401 ]_vars

(* README, Blocklist: set adds the entry (unless whitelisted) *)
SetEffect == [][ (res'.op = "set" /\ res'.ok) =>
                 /\ res'.status = 200 /\ cache' = cache
                 /\ bl' = (IF res'.arg = "wl" THEN bl ELSE bl \cup {res'.arg})
                 /\ (res'.arg = "wl" => ~res'.flag) ]_vars
(* after block/set/x, block/exists/x is true and a query for x is blocked *)
SetThenBlocked == (res.op = "set" /\ res.ok /\ res.arg # "wl") => BlockedDoc(bl, res.arg)
(* README: "set returns success:false when the key was already present or sits on the whitelist" *)
SetSaysDuplicate == [][ (res'.op = "set" /\ res'.ok) => res'.flag = (res'.arg \notin bl /\ res'.arg # "wl") ]_vars

(* README: remove deletes the entry; "remove returns success:false when the key wasn't there to begin with" *)
RemoveEffect == [][ (res'.op = "remove" /\ res'.ok) =>
                    /\ res'.status = 200 /\ cache' = cache /\ bl' = bl \ {res'.arg} /\ res'.flag = (res'.arg \in bl) ]_vars

(* the probes change nothing *)
ReadOnly == [][ res'.op \in {"exists", "get", "metrics", "purgebad", "emptybatch", "query"} => bl' = bl ]_vars
ReadOnlyCache == [][ res'.op \in {"exists", "get", "metrics", "purgebad", "emptybatch", "set", "remove", "setbatch", "removebatch"}
                     => cache' = cache ]_vars

(* "Membership probe": exists says what the DNS side does (BlockList doc comment: exact + subdomains, wildcard, whitelist) *)
ExistsHonest == (res.op = "exists" /\ res.ok) => (res.status = 200 /\ res.flag = BlockedDoc(bl, res.arg))

(* "Look up a block entry": 200 {success:true} for an entry, 404 otherwise *)
GetHonest   == (res.op = "get" /\ res.ok /\ res.arg # "w") => (res.status = (IF res.arg \in bl THEN 200 ELSE 404))
GetWildcard == (res.op = "get" /\ res.ok /\ res.arg = "w") => (res.status = (IF res.arg \in bl THEN 200 ELSE 404))

(* Bulk operations: "requested = added + skipped", "requested = removed + missing"; the whole batch lands *)
BatchSetEffect == [][ (res'.op = "setbatch" /\ res'.ok) =>
                      /\ res'.status = 200 /\ bl' = bl \cup (res'.arg \ {"wl"})
                      /\ res'.flag[1] = Cardinality(res'.arg) /\ res'.flag[2] + res'.flag[3] = res'.flag[1]
                      /\ res'.flag[2] <= Cardinality(res'.arg \ {"wl"}) ]_vars
(* "added excludes duplicates and whitelisted keys" *)
BatchAddedExcludesDup == [][ (res'.op = "setbatch" /\ res'.ok) => res'.flag[2] = Cardinality((res'.arg \ {"wl"}) \ bl) ]_vars
BatchRemoveEffect == [][ (res'.op = "removebatch" /\ res'.ok) =>
                         /\ res'.status = 200 /\ bl' = bl \ res'.arg
                         /\ res'.flag[1] = Cardinality(res'.arg) /\ res'.flag[2] = Cardinality(res'.arg \cap bl)
                         /\ res'.flag[2] + res'.flag[3] = res'.flag[1] ]_vars
EmptyBatchRejected == (res.op = "emptybatch" /\ res.ok) => res.status = 400

(* Cache purge: "Drop cached answer for one question": exactly the named <<name, type>>; unknown types are rejected
   "before any cache is touched" *)
PurgeExact == [][ (res'.op = "purge" /\ res'.ok) => (res'.status = 200 /\ res'.flag /\ cache' = cache \ {res'.arg} /\ bl' = bl) ]_vars
PurgeBadRejected == [][ (res'.op = "purgebad" /\ res'.ok) => (res'.status = 400 /\ cache' = cache) ]_vars

(* the DNS side: blocked iff the blocklist says so (whatever the cache holds); otherwise the cache answers what it holds and
   only what it does not hold goes upstream (so the query after a purge goes upstream) *)
QueryHonest == [][ res'.op = "query" =>
                   LET p == res'.arg IN
                   /\ res'.flag = (IF BlockedDoc(bl, p[1]) THEN "blocked" ELSE IF p \in cache THEN "cache" ELSE "upstream")
                   /\ cache' = (IF res'.flag = "upstream" THEN cache \cup {p} ELSE cache) ]_vars
=============================================================================
