SPECIFICATION Spec
CONSTANTS
  AsBuilt = FALSE
  Mut = "exists-exact"
  Toks <- NoTok
  Spell <- OneSpell
  Auths <- AnonOnly
  QPairs <- PairsSmall
  Batches <- BatchesSmall
INVARIANT ExistsHonest
CHECK_DEADLOCK FALSE
