SPECIFICATION Spec
CONSTANTS
  AsBuilt = TRUE
  Mut = "none"
  Toks <- AnyTok
  Spell <- AllSpell
  Auths <- AllAuth
  QPairs <- PairsAll
  Batches <- BatchesAll
INVARIANT TypeOK
ACTION_CONSTRAINT SimRhythm
CHECK_DEADLOCK FALSE
