SPECIFICATION Spec
CONSTANTS
  AsBuilt = FALSE
  Mut = "badtype-purges"
  Toks <- NoTok
  Spell <- OneSpell
  Auths <- AnonOnly
  QPairs <- PairsSmall
  Batches <- BatchesSmall
PROPERTY ReadOnlyCache
CHECK_DEADLOCK FALSE
