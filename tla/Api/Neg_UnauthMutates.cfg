SPECIFICATION Spec
CONSTANTS
  AsBuilt = FALSE
  Mut = "unauth-mutates"
  Toks <- YesTok
  Spell <- OneSpell
  Auths <- ThreeAuth
  QPairs <- PairsSmall
  Batches <- BatchesSmall
PROPERTY Unauth
CHECK_DEADLOCK FALSE
