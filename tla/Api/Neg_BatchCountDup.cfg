SPECIFICATION Spec
CONSTANTS
  AsBuilt = FALSE
  Mut = "batch-count"
  Toks <- NoTok
  Spell <- OneSpell
  Auths <- AnonOnly
  QPairs <- PairsSmall
  Batches <- BatchesSmall
PROPERTY BatchAddedExcludesDup
CHECK_DEADLOCK FALSE
