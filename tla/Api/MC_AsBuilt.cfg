SPECIFICATION Spec
CONSTANTS
  AsBuilt = TRUE
  Mut = "none"
  Toks <- NoTok
  Spell <- OneSpell
  Auths <- AnonOnly
  QPairs <- PairsSmall
  Batches <- BatchesSmall
INVARIANT TypeOK
PROPERTY Unauth
PROPERTY AuthPass
PROPERTY SetEffect
INVARIANT SetThenBlocked
PROPERTY RemoveEffect
PROPERTY ReadOnly
PROPERTY ReadOnlyCache
INVARIANT ExistsHonest
INVARIANT GetHonest
PROPERTY BatchSetEffect
PROPERTY BatchRemoveEffect
INVARIANT EmptyBatchRejected
PROPERTY PurgeExact
PROPERTY PurgeBadRejected
PROPERTY QueryHonest
CHECK_DEADLOCK FALSE
