SPECIFICATION Spec
CONSTANTS
  AsBuilt = FALSE
  Mut = "none"
  Toks <- NoTok
  Spell <- OneSpell
  Auths <- AnonOnly
  QPairs <- PairsSmall
  Batches <- BatchesSmall
INVARIANT TypeOK
PROPERTY Unauth
PROPERTY AuthPass
PROPERTY SetEffect
INVARIANT SetThenBlocked
PROPERTY RemoveEffect
PROPERTY ReadOnly
PROPERTY ReadOnlyCache
INVARIANT ExistsHonest
INVARIANT GetHonest
PROPERTY BatchSetEffect
PROPERTY BatchRemoveEffect
INVARIANT EmptyBatchRejected
PROPERTY PurgeExact
PROPERTY PurgeBadRejected
PROPERTY QueryHonest
PROPERTY SetSaysDuplicate
PROPERTY BatchAddedExcludesDup
INVARIANT GetWildcard
CHECK_DEADLOCK FALSE
