SPECIFICATION Spec
CONSTANTS
  AsBuilt = FALSE
  Mut = "badtype-purges"
  Toks <- NoTok
  Spell <- OneSpell
  Auths <- AnonOnly
  QPairs <- PairsSmall
  Batches <- BatchesSmall
PROPERTY PurgeBadRejected
CHECK_DEADLOCK FALSE
