CONSTANTS
  Callers = {1, 2, 3}
  Keys = {"k1", "k2"}
  ZoneOf <- SameZone
  ResCap = 2
  ZoneCap = 1
  MaxC = 1
  MaxFlights = 5
  MaxCalls = 6
  MaxEnv = 2
  Ops = {"cancel", "fail", "forget", "stuck"}
  Coarse = TRUE
  CopyShared = TRUE
  OwnId = TRUE
  RetireById = TRUE
  RelOnRefusal = TRUE
  CtxSelect = TRUE
  CapRegroup = TRUE
INIT Init
NEXT Next
CHECK_DEADLOCK FALSE
