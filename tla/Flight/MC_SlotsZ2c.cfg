CONSTANTS
  Callers = {1, 2}
  Keys = {"k1", "k2"}
  ZoneOf <- TwoZones
  ResCap = 2
  ZoneCap = 1
  MaxC = 1
  MaxFlights = 2
  MaxCalls = 2
  MaxEnv = 1
  Ops = {"cancel"}
  Coarse = FALSE
  CopyShared = TRUE
  OwnId = TRUE
  RetireById = TRUE
  RelOnRefusal = TRUE
  CtxSelect = TRUE
  CapRegroup = TRUE
SPECIFICATION Spec
INVARIANTS TypeOK CapacityPrivate OwnCopy OwnId_ OwnQuestion CtxPrivate ErrorsFromOwnFlight WaitersAttached ForgottenWhenDone
  LiveRegistered MapsInSync TrackedIsCurrent OneLivePerKey SlotAccounting HoldersRunning SlotsBalanced RefusalHoldsNothing
PROPERTIES JoinsOnlyLive
CHECK_DEADLOCK FALSE
