CONSTANTS
  Callers = {1, 2, 3}
  Keys = {"k1", "k2"}
  ZoneOf <- SameZone
  ResCap = 1
  ZoneCap = 2
  MaxC = 1
  MaxFlights = 6
  MaxCalls = 1000
  MaxEnv = 0
  Ops = {"cancel", "fail"}
  Coarse = FALSE
  CopyShared = TRUE
  OwnId = TRUE
  RetireById = TRUE
  RelOnRefusal = TRUE
  CtxSelect = TRUE
  CapRegroup = TRUE
  SearchBudget = 2000000
SPECIFICATION TraceSpec
INVARIANTS TypeOK OwnCopy OwnId_ OwnQuestion CtxPrivate ErrorsFromOwnFlight WaitersAttached ForgottenWhenDone
  LiveRegistered MapsInSync OneLivePerKey SlotAccounting HoldersRunning SlotsBalanced RefusalHoldsNothing NotDone
CONSTRAINT WithinBudget
CHECK_DEADLOCK FALSE
