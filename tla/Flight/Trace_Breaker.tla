---------------------------- MODULE Trace_Breaker ----------------------------
(***************************************************************************)
(* Validation of concurrent histories recorded from the real circuitBreaker *)
(* (harness/x11fl/breaker_test.go) against Breaker.tla.  Goroutines call    *)
(* canQuery / recordFailure / recordSuccess on one server concurrently;     *)
(* every call logs an invocation line before it starts and a response line  *)
(* after it returned, the clock shift (one atomic add) logs one line under  *)
(* the log's lock -- all stamped from one harness-side sequence.  The       *)
(* atomics inside a call are the silent steps TLC interleaves between       *)
(* lines: acceptance = the history is linearizable with respect to the      *)
(* model of the individual atomics.  `end` carries the quiescent record.    *)
(* Depth-first search; NotDone is "violated" exactly when some path has     *)
(* consumed every line (= accepted).                                        *)
(***************************************************************************)
EXTENDS Breaker, Json, IOUtils, Sequences

TraceLog == ndJsonDeserialize(IOEnv.TRACE_FILE)

CONSTANT SearchBudget   \* distinct states the depth-first search may visit before it gives up

VARIABLE l
tvars == <<vars, l>>

TraceInit == Init /\ l = 1
Line == TraceLog[l]
IsEv(e) == l <= Len(TraceLog) /\ Line.ev = e /\ l' = l + 1
S1 == CHOOSE s \in Servers : TRUE

TInv ==
  /\ IsEv("inv")
  /\ \/ Line.op = "can" /\ CanQuery(Line.p, S1)
     \/ Line.op = "fail" /\ RecordFailure(Line.p, S1)
     \/ Line.op = "succ" /\ RecordSuccess(Line.p, S1)

TRes ==
  /\ IsEv("res")
  /\ pc[Line.p] = "idle" /\ lastRes[Line.p] = Line.res
  /\ UNCHANGED vars

TTick == IsEv("tick") /\ Tick(Line.d)

Silent == l <= Len(TraceLog) /\ (\E p \in Procs : Steps(p)) /\ UNCHANGED l

TEnd ==
  /\ IsEv("end")
  /\ \A p \in Procs : pc[p] = "idle"
  /\ ex[S1] = Line.ex /\ cnt[S1] = Line.cnt /\ dis[S1] = Line.dis
  /\ UNCHANGED vars

TReset ==
  /\ IsEv("Reset")
  /\ ex' = [s \in Servers |-> FALSE] /\ cnt' = [s \in Servers |-> 0] /\ dis' = [s \in Servers |-> FALSE]
  /\ age' = [s \in Servers |-> Evict]
  /\ pc' = [p \in Procs |-> "idle"] /\ srv' = [p \in Procs |-> S1]
  /\ opn' = [p \in Procs |-> "none"] /\ tmp' = [p \in Procs |-> 0] /\ ops' = [p \in Procs |-> 0]
  /\ lastRes' = [p \in Procs |-> "none"] /\ ticks' = 0 /\ pre' = [p \in Procs |-> NoRec]

TraceNext == TReset \/ TInv \/ TRes \/ TTick \/ TEnd \/ Silent
TraceSpec == TraceInit /\ [][TraceNext]_tvars
NotDone == l <= Len(TraceLog)
WithinBudget == TLCGet("distinct") < SearchBudget
=============================================================================
