SPECIFICATION MonitorSpec
INVARIANTS OwnQuestion OwnReply Answered FreshFlight CtxPrivate PrivateCopy SlotsBalanced Forgotten WellFormed
POSTCONDITION Consumed
CHECK_DEADLOCK FALSE
