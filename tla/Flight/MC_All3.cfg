CONSTANTS
  Callers = {1, 2, 3}
  Keys = {"k1"}
  ZoneOf <- SameZone
  ResCap = 1
  ZoneCap = 1
  MaxC = 1
  MaxFlights = 3
  MaxCalls = 3
  MaxEnv = 1
  Ops = {"fail"}
  Coarse = FALSE
  CopyShared = TRUE
  OwnId = TRUE
  RetireById = TRUE
  RelOnRefusal = TRUE
  CtxSelect = TRUE
  CapRegroup = TRUE
SPECIFICATION Spec
INVARIANTS TypeOK CapacityPrivate OwnCopy OwnId_ OwnQuestion CtxPrivate ErrorsFromOwnFlight WaitersAttached ForgottenWhenDone
  LiveRegistered MapsInSync TrackedIsCurrent OneLivePerKey SlotAccounting HoldersRunning SlotsBalanced RefusalHoldsNothing
PROPERTIES JoinsOnlyLive
CHECK_DEADLOCK FALSE
