CONSTANTS
  Callers = {1, 2, 3, 4}
  Keys = {"k1", "k2", "k3"}
  ZoneOf <- Zones3
  ResCap = 2
  ZoneCap = 1
  MaxC = 1
  MaxFlights = 12
  MaxCalls = 1000
  MaxEnv = 0
  Ops = {"cancel", "fail"}
  Coarse = FALSE
  CopyShared = TRUE
  OwnId = TRUE
  RetireById = TRUE
  RelOnRefusal = TRUE
  CtxSelect = TRUE
  CapRegroup = TRUE
  SearchBudget = 120000
SPECIFICATION TraceSpec
INVARIANTS TypeOK OwnCopy OwnId_ OwnQuestion CtxPrivate ErrorsFromOwnFlight WaitersAttached ForgottenWhenDone
  LiveRegistered MapsInSync OneLivePerKey SlotAccounting HoldersRunning SlotsBalanced RefusalHoldsNothing NotDone
CONSTRAINT WithinBudget
CHECK_DEADLOCK FALSE
