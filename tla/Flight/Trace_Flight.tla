---------------------------- MODULE Trace_Flight ----------------------------
(***************************************************************************)
(* Validation of concurrent histories recorded from the real                *)
(* Resolver.groupLookup (harness/x11fl/stress_test.go) against Flight.tla.  *)
(* Caller goroutines invoke groupLookup concurrently against a free-running *)
(* scripted upstream; every invocation logs a `call` line before it starts  *)
(* and a `ret` line after it returned, a cancellation logs a `cancel` line  *)
(* before the context is cancelled, the upstream logs `upq` when an attempt *)
(* reaches it and `upr` just before it answers -- all stamped from one      *)
(* harness-side atomic sequence, so the line order respects real time.  The *)
(* steps inside the code (DoChan, the leader closure's acquisitions, the    *)
(* deliveries, the selects) are not observable: they are the silent steps   *)
(* TLC interleaves between lines, so acceptance means the history is        *)
(* explained by the model of the individual critical sections, and every    *)
(* invariant of Flight.tla is evaluated along the way.  An `end` line       *)
(* carries the quiescent slot / registry state.  Histories are concatenated *)
(* with Reset lines.  A log is accepted when some path consumes every line: *)
(* the high-water mark of `l` is kept in TLC register 1 (-workers 1).       *)
(***************************************************************************)
EXTENDS MC_Flight, Json, IOUtils, Sequences

TraceLog == ndJsonDeserialize(IOEnv.TRACE_FILE)

CONSTANT SearchBudget   \* distinct states the depth-first explanation search may visit before it gives up

VARIABLES l, tag, inv, finv
tvars == <<vars, l, tag, inv, finv>>

TraceInit == Init /\ l = 1 /\ tag = [f \in Flights |-> 0] /\ inv = [c \in Callers |-> 0]
             /\ finv = [f \in Flights |-> 0] /\ TLCSet(1, 0)
Line == TraceLog[l]
IsEv(e) == l <= Len(TraceLog) /\ Line.ev = e /\ l' = l + 1

KindOf(o) == IF o = "local" THEN "ctx" ELSE o

TCall ==
  /\ IsEv("call")
  /\ Invoke(Line.c, Line.k)
  /\ inv' = [inv EXCEPT ![Line.c] = Line.n]
  /\ UNCHANGED <<tag, finv>>

(* the line is written before cancel() is called: by then the invocation may already be over *)
TCancel ==
  /\ IsEv("cancel")
  /\ IF inv[Line.c] = Line.n /\ cl[Line.c].pc # "idle" /\ ~cl[Line.c].ctx
       THEN Cancel(Line.c)
       ELSE UNCHANGED vars
  /\ UNCHANGED <<tag, inv, finv>>

(* an attempt reached the upstream: it is the attempt (`go r.queryServer`) of the flight that this caller's
   invocation leads; the flight may already have left on its context while the datagram was on its way *)
TUpq ==
  /\ IsEv("upq")
  /\ \E f \in Flights : /\ fl[f].att /\ tag[f] = 0
                        /\ fl[f].key = Line.k /\ fl[f].leader = Line.leader /\ finv[f] = Line.ln
                        /\ tag' = [tag EXCEPT ![f] = Line.tag]
  /\ UNCHANGED <<vars, inv, finv>>

(* the upstream answers; nobody may be listening any more *)
TUpr ==
  /\ IsEv("upr")
  /\ IF \E f \in Flights : tag[f] = Line.tag
       THEN \E f \in Flights : /\ tag[f] = Line.tag
                                /\ IF fl[f].phase = "lookup" /\ fl[f].reply = "none"
                                     THEN Reply(f, Line.o)
                                     ELSE UNCHANGED vars
       ELSE UNCHANGED vars
  /\ UNCHANGED <<tag, inv, finv>>

TRet ==
  /\ IsEv("ret")
  /\ cl[Line.c].pc = "idle" /\ inv[Line.c] = Line.n
  /\ KindOf(last[Line.c].o) = Line.kind
  /\ Line.kind = "ok" => tag[last[Line.c].f] = Line.tag
  /\ UNCHANGED <<vars, tag, inv, finv>>

Silent ==
  /\ l <= Len(TraceLog)
  /\ Internal
  /\ finv' = IF nf' > nf THEN [finv EXCEPT ![nf'] = inv[fl'[nf'].leader]] ELSE finv   \* the invocation that leads a new flight
  /\ UNCHANGED <<l, tag, inv>>

TEnd ==
  /\ IsEv("end")
  /\ Quiescent
  /\ resUsed = Line.res /\ mcUsed = Line.mc
  /\ \A z \in Zones : zb[z] = Line.zone[z]
  /\ Cardinality({k \in Keys : m[k] # 0}) = Line.inflight
  \* (the wrapper's own bookkeeping -- current / tracking -- is logged but not matched: no caller can observe it)
  /\ UNCHANGED <<vars, tag, inv, finv>>

TReset ==
  /\ IsEv("Reset")
  /\ m' = [k \in Keys |-> 0] /\ cur' = [k \in Keys |-> 0] /\ track' = [k \in Keys |-> 0] /\ scan' = [k \in Keys |-> 0]
  /\ nf' = 0 /\ ng' = 0
  /\ fl' = [f \in Flights |-> NoFlight]
  /\ cl' = [c \in Callers |-> IdleCaller]
  /\ resUsed' = 0 /\ zb' = [z \in Zones |-> 0] /\ mcUsed' = 0
  /\ ncalls' = 0 /\ nenv' = 0
  /\ last' = [c \in Callers |-> NoLast]
  /\ aliasOf' = [f \in Flights |-> {}] /\ recvOf' = [f \in Flights |-> {}]
  /\ tag' = [f \in Flights |-> 0] /\ inv' = [c \in Callers |-> 0] /\ finv' = [f \in Flights |-> 0]

TraceNext == TReset \/ TCall \/ TCancel \/ TUpq \/ TUpr \/ TRet \/ TEnd \/ Silent
TraceSpec == TraceInit /\ [][TraceNext]_tvars

HighWater == TLCSet(1, IF l > TLCGet(1) THEN l ELSE TLCGet(1))
TraceAccepted == TLCGet(1) > Len(TraceLog)
(* early exit for a depth-first search: "violated" exactly when some path has consumed every line *)
NotDone == l <= Len(TraceLog)
(* CONSTRAINT: past the budget nothing is expanded any more, so the run ends (= inconclusive, not a rejection) *)
WithinBudget == TLCGet("distinct") < SearchBudget
=============================================================================
