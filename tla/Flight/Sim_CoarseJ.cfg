CONSTANTS
  Callers = {1, 2, 3}
  Keys = {"k1"}
  ZoneOf <- SameZone
  ResCap = 3
  ZoneCap = 3
  MaxC = 3
  MaxFlights = 5
  MaxCalls = 6
  MaxEnv = 2
  Ops = {"cancel", "fail", "forget", "stuck"}
  Coarse = TRUE
  CopyShared = TRUE
  OwnId = TRUE
  RetireById = TRUE
  RelOnRefusal = TRUE
  CtxSelect = TRUE
  CapRegroup = TRUE
INIT Init
NEXT Next
CHECK_DEADLOCK FALSE
