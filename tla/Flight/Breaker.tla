------------------------------- MODULE Breaker -------------------------------
(***************************************************************************)
(* middleware/resolver/circuit_breaker.go -- the per-server circuit breaker *)
(* consulted by Resolver.queryServer before every upstream attempt.         *)
(*                                                                         *)
(* Every atomic of the code is one action (p = calling goroutine):          *)
(*   canQuery:      CqLookup   RLock; failures[server]; absent -> true      *)
(*                  CqLoadDis  disabled.Load(); false -> true               *)
(*                  CqLoadLast time.Since(lastFailure) > 30s ? else false   *)
(*                  CqCAS      disabled.CompareAndSwap(true, false)         *)
(*                  CqStore    count.Store(0); true                         *)
(*   recordFailure: RfLookup   Lock; create the record when absent          *)
(*                  RfAdd      count.Add(1)                                 *)
(*                  RfStamp    lastFailure.Store(now)                       *)
(*                  RfTrip     count >= N && disabled.CAS(false, true)      *)
(*   recordSuccess: RsLookup   RLock; absent -> nothing                     *)
(*                  RsSwapCnt  count.Swap(0)                                *)
(*                  RsSwapDis  disabled.Swap(false)                         *)
(*   cleanupOnce:   Cleanup    Lock; delete every record idle > 300 s       *)
(*   Tick(d)        the clock advances d ticks                              *)
(*                                                                         *)
(* Time is counted in ticks of 16 s as the AGE of a record's last failure   *)
(* (the driver moves lastFailure into the past through the overlay shim):   *)
(* one tick = 16..17 s < 30 s keeps an open breaker shut, two ticks = 32 s   *)
(* re-admit (Cool = 2); 19 ticks = 304 s > 300 s evict (Evict = 19).         *)
(* N is 5 in the code.                                                       *)
(*                                                                         *)
(* What the code implements ("half-open" is not a state of its own): after  *)
(* the cool-down the first canQuery closes the breaker completely (disabled *)
(* := false, count := 0) and admits; N further consecutive failures are     *)
(* needed to open it again.  A success resets the streak and closes.  This  *)
(* sequential meaning is the reference (operators Ref..) a completed call is       *)
(* compared with when calls do not overlap (Atomic = TRUE); with overlapping *)
(* calls only the race-independent invariants are claimed.                  *)
(* Deliberate abstraction: cleanupOnce runs only while no call is between    *)
(* its lookup and its last atomic on the same breaker (a call racing an      *)
(* eviction keeps writing to the unlinked record, which nobody reads).      *)
(***************************************************************************)
EXTENDS Integers, FiniteSets, TLC

CONSTANTS
  Servers, Procs,
  N,        \* failures that trip the breaker (5)
  Cool,     \* ticks after which a disabled server is re-admitted (2)
  Evict,    \* ticks of idleness after which cleanupOnce drops a record (19)
  MaxOps,   \* calls per process
  MaxTicks, \* Tick steps per behaviour
  Atomic,   \* TRUE: calls do not overlap
  \* guards of the code; changed only in the negative configs
  TripGe,   \* TRUE: `count >= N`   (FALSE: `count > N`)
  CoolOn,   \* TRUE: canQuery honours the cool-down (FALSE: re-admits at once)
  ResetOn   \* TRUE: recordSuccess resets the streak

VARIABLES
  ex, cnt, dis, age,     \* per server: record exists, count, disabled, ticks since lastFailure
  pc, srv, opn, tmp, ops, lastRes,   \* per process
  ticks,
  pre                    \* ghost: the server's record when the running call started (Atomic oracle)

vars == <<ex, cnt, dis, age, pc, srv, opn, tmp, ops, lastRes, ticks, pre>>
recVars == <<ex, cnt, dis, age>>

PCs == {"idle", "cqLookup", "cqLoadDis", "cqLoadLast", "cqCAS", "cqStore", "rfLookup", "rfAdd", "rfStamp", "rfTrip",
        "rsLookup", "rsSwapCnt", "rsSwapDis"}
Rec(s) == [ex |-> ex[s], cnt |-> cnt[s], dis |-> dis[s], age |-> age[s]]
NoRec == [ex |-> FALSE, cnt |-> 0, dis |-> FALSE, age |-> Evict]

Init ==
  /\ ex = [s \in Servers |-> FALSE] /\ cnt = [s \in Servers |-> 0] /\ dis = [s \in Servers |-> FALSE]
  /\ age = [s \in Servers |-> Evict]
  /\ pc = [p \in Procs |-> "idle"] /\ srv = [p \in Procs |-> CHOOSE s \in Servers : TRUE]
  /\ opn = [p \in Procs |-> "none"] /\ tmp = [p \in Procs |-> 0] /\ ops = [p \in Procs |-> 0]
  /\ lastRes = [p \in Procs |-> "none"]
  /\ ticks = 0
  /\ pre = [p \in Procs |-> NoRec]

Ret(p, r) == pc' = [pc EXCEPT ![p] = "idle"] /\ lastRes' = [lastRes EXCEPT ![p] = r]
Goto(p, l) == pc' = [pc EXCEPT ![p] = l] /\ UNCHANGED lastRes

Start(p, s, name, first) ==
  /\ pc[p] = "idle" /\ ops[p] < MaxOps
  /\ Atomic => \A q \in Procs : pc[q] = "idle"
  /\ pc' = [pc EXCEPT ![p] = first]
  /\ srv' = [srv EXCEPT ![p] = s] /\ opn' = [opn EXCEPT ![p] = name] /\ ops' = [ops EXCEPT ![p] = @ + 1]
  /\ pre' = [pre EXCEPT ![p] = Rec(s)]
  /\ UNCHANGED <<recVars, tmp, lastRes, ticks>>

CanQuery(p, s) == Start(p, s, "can", "cqLookup")
RecordFailure(p, s) == Start(p, s, "fail", "rfLookup")
RecordSuccess(p, s) == Start(p, s, "succ", "rsLookup")

(* ---- canQuery ---- *)
CqLookup(p) ==
  /\ pc[p] = "cqLookup"
  /\ IF ex[srv[p]] THEN Goto(p, "cqLoadDis") ELSE Ret(p, "true")
  /\ UNCHANGED <<recVars, srv, opn, tmp, ops, ticks, pre>>
CqLoadDis(p) ==
  /\ pc[p] = "cqLoadDis"
  /\ IF dis[srv[p]] THEN Goto(p, "cqLoadLast") ELSE Ret(p, "true")
  /\ UNCHANGED <<recVars, srv, opn, tmp, ops, ticks, pre>>
CqLoadLast(p) ==
  /\ pc[p] = "cqLoadLast"
  /\ IF age[srv[p]] >= Cool \/ ~CoolOn THEN Goto(p, "cqCAS") ELSE Ret(p, "false")
  /\ UNCHANGED <<recVars, srv, opn, tmp, ops, ticks, pre>>
CqCAS(p) ==
  /\ pc[p] = "cqCAS"
  /\ dis' = [dis EXCEPT ![srv[p]] = FALSE]
  /\ Goto(p, "cqStore")
  /\ UNCHANGED <<ex, cnt, age, srv, opn, tmp, ops, ticks, pre>>
CqStore(p) ==
  /\ pc[p] = "cqStore"
  /\ cnt' = [cnt EXCEPT ![srv[p]] = 0]
  /\ Ret(p, "true")
  /\ UNCHANGED <<ex, dis, age, srv, opn, tmp, ops, ticks, pre>>

(* ---- recordFailure ---- *)
RfLookup(p) ==
  LET s == srv[p] IN
  /\ pc[p] = "rfLookup"
  /\ IF ex[s] THEN UNCHANGED recVars
     ELSE /\ ex' = [ex EXCEPT ![s] = TRUE] /\ cnt' = [cnt EXCEPT ![s] = 0] /\ dis' = [dis EXCEPT ![s] = FALSE]
          /\ age' = [age EXCEPT ![s] = Evict]
  /\ Goto(p, "rfAdd")
  /\ UNCHANGED <<srv, opn, tmp, ops, ticks, pre>>
RfAdd(p) ==
  /\ pc[p] = "rfAdd"
  /\ cnt' = [cnt EXCEPT ![srv[p]] = @ + 1]
  /\ tmp' = [tmp EXCEPT ![p] = cnt[srv[p]] + 1]
  /\ Goto(p, "rfStamp")
  /\ UNCHANGED <<ex, dis, age, srv, opn, ops, ticks, pre>>
RfStamp(p) ==
  /\ pc[p] = "rfStamp"
  /\ age' = [age EXCEPT ![srv[p]] = 0]
  /\ Goto(p, "rfTrip")
  /\ UNCHANGED <<ex, cnt, dis, srv, opn, tmp, ops, ticks, pre>>
RfTrip(p) ==
  /\ pc[p] = "rfTrip"
  /\ dis' = IF (IF TripGe THEN tmp[p] >= N ELSE tmp[p] > N) THEN [dis EXCEPT ![srv[p]] = TRUE] ELSE dis
  /\ Ret(p, "done")
  /\ UNCHANGED <<ex, cnt, age, srv, opn, tmp, ops, ticks, pre>>

(* ---- recordSuccess ---- *)
RsLookup(p) ==
  /\ pc[p] = "rsLookup"
  /\ IF ex[srv[p]] THEN Goto(p, "rsSwapCnt") ELSE Ret(p, "done")
  /\ UNCHANGED <<recVars, srv, opn, tmp, ops, ticks, pre>>
RsSwapCnt(p) ==
  /\ pc[p] = "rsSwapCnt"
  /\ cnt' = IF ResetOn THEN [cnt EXCEPT ![srv[p]] = 0] ELSE cnt
  /\ Goto(p, "rsSwapDis")
  /\ UNCHANGED <<ex, dis, age, srv, opn, tmp, ops, ticks, pre>>
RsSwapDis(p) ==
  /\ pc[p] = "rsSwapDis"
  /\ dis' = [dis EXCEPT ![srv[p]] = FALSE]
  /\ Ret(p, "done")
  /\ UNCHANGED <<ex, cnt, age, srv, opn, tmp, ops, ticks, pre>>

(* ---- cleanupOnce(now) and the clock ---- *)
Cleanup ==
  /\ \A p \in Procs : pc[p] = "idle"
  /\ \E s \in Servers : ex[s] /\ age[s] >= Evict
  /\ ex' = [s \in Servers |-> ex[s] /\ age[s] < Evict]
  /\ cnt' = [s \in Servers |-> IF ex[s] /\ age[s] >= Evict THEN 0 ELSE cnt[s]]
  /\ dis' = [s \in Servers |-> IF ex[s] /\ age[s] >= Evict THEN FALSE ELSE dis[s]]
  /\ UNCHANGED <<age, pc, srv, opn, tmp, ops, lastRes, ticks, pre>>

Tick(d) ==
  /\ ticks < MaxTicks
  /\ Atomic => \A p \in Procs : pc[p] = "idle"
  /\ age' = [s \in Servers |-> IF age[s] + d > Evict THEN Evict ELSE age[s] + d]
  /\ ticks' = ticks + 1
  /\ UNCHANGED <<ex, cnt, dis, pc, srv, opn, tmp, ops, lastRes, pre>>

Steps(p) ==
  \/ CqLookup(p) \/ CqLoadDis(p) \/ CqLoadLast(p) \/ CqCAS(p) \/ CqStore(p)
  \/ RfLookup(p) \/ RfAdd(p) \/ RfStamp(p) \/ RfTrip(p)
  \/ RsLookup(p) \/ RsSwapCnt(p) \/ RsSwapDis(p)
Next ==
  \/ \E p \in Procs, s \in Servers : CanQuery(p, s) \/ RecordFailure(p, s) \/ RecordSuccess(p, s)
  \/ \E p \in Procs : Steps(p)
  \/ Cleanup
  \/ \E d \in {1, Evict - Cool} : Tick(d)
Spec == Init /\ [][Next]_vars

(* ------------------------------- properties ---------------------------------- *)
TypeOK ==
  /\ ex \in [Servers -> BOOLEAN] /\ dis \in [Servers -> BOOLEAN]
  /\ cnt \in [Servers -> Nat] /\ age \in [Servers -> 0..Evict]
  /\ pc \in [Procs -> PCs] /\ lastRes \in [Procs -> {"none", "true", "false", "done"}]

(* the sequential meaning of the three calls on one record *)
RefFail(r) == LET c == (IF r.ex THEN r.cnt ELSE 0) + 1 IN
              [ex |-> TRUE, cnt |-> c, dis |-> (IF r.ex THEN r.dis ELSE FALSE) \/ c >= N, age |-> 0]
RefSucc(r) == IF r.ex THEN [r EXCEPT !.cnt = 0, !.dis = FALSE] ELSE r
RefCanRes(r) == IF r.ex /\ r.dis /\ r.age < Cool THEN "false" ELSE "true"
RefCan(r) == IF r.ex /\ r.dis /\ r.age >= Cool THEN [r EXCEPT !.cnt = 0, !.dis = FALSE] ELSE r

(* Atomic: every completed call did to its server's record exactly what the reference says:
     closed -> open after N consecutive failures, open refuses until the cool-down, the first
     canQuery after the cool-down admits and closes, a success resets *)
SequentialMeaning ==
  [][Atomic => \A p \in Procs : (pc[p] # "idle" /\ pc'[p] = "idle") =>
        LET s == srv[p]
            after == [ex |-> ex'[s], cnt |-> cnt'[s], dis |-> dis'[s], age |-> age'[s]] IN
        CASE opn[p] = "fail" -> after = RefFail(pre[p])
          [] opn[p] = "succ" -> after = RefSucc(pre[p])
          [] opn[p] = "can" -> after = RefCan(pre[p]) /\ lastRes'[p] = RefCanRes(pre[p])]_vars
(* Atomic, between calls: the breaker is open exactly when the streak reached N *)
OpenIffStreak == (Atomic /\ \A p \in Procs : pc[p] = "idle") => \A s \in Servers : ex[s] => (dis[s] = (cnt[s] >= N))
(* servers are independent: a step of a call changes nothing but its own server's record *)
ServersIndependent ==
  [][\A p \in Procs : (pc[p] # "idle" /\ pc'[p] # pc[p]) =>
        \A s \in Servers \ {srv[p]} : ex'[s] = ex[s] /\ cnt'[s] = cnt[s] /\ dis'[s] = dis[s] /\ age'[s] = age[s]]_vars
(* race-independent: a refusal is only ever given for a record that exists, and a record that does not exist is closed *)
AbsentIsClosed == \A s \in Servers : ~ex[s] => (~dis[s] /\ cnt[s] = 0)
(* a refusal happens only while the record is disabled-or-was and inside the cool-down *)
RefusalNeedsOpen ==
  [][\A p \in Procs : (pc[p] = "cqLoadLast" /\ pc'[p] = "idle" /\ lastRes'[p] = "false") => age[srv[p]] < Cool]_vars
=============================================================================
