CONSTANTS
  Servers = {"s1", "s2"}
  Procs = {1}
  N = 2
  Cool = 2
  Evict = 19
  MaxOps = 5
  MaxTicks = 3
  Atomic = TRUE
  TripGe = TRUE
  CoolOn = TRUE
  ResetOn = TRUE
SPECIFICATION Spec
INVARIANTS TypeOK OpenIffStreak AbsentIsClosed
PROPERTIES SequentialMeaning RefusalNeedsOpen ServersIndependent
CHECK_DEADLOCK FALSE
