CONSTANTS
  Servers = {"s1"}
  Procs = {1}
  N = 2
  Cool = 2
  Evict = 19
  MaxOps = 4
  MaxTicks = 0
  Atomic = TRUE
  TripGe = TRUE
  CoolOn = FALSE
  ResetOn = TRUE
SPECIFICATION Spec
INVARIANTS TypeOK OpenIffStreak AbsentIsClosed
PROPERTIES SequentialMeaning RefusalNeedsOpen ServersIndependent
CHECK_DEADLOCK FALSE
