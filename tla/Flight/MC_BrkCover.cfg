CONSTANTS
  Servers = {"s1"}
  Procs = {1}
  N = 5
  Cool = 2
  Evict = 19
  MaxOps = 7
  MaxTicks = 2
  Atomic = TRUE
  TripGe = TRUE
  CoolOn = TRUE
  ResetOn = TRUE
SPECIFICATION Spec
INVARIANTS TypeOK OpenIffStreak AbsentIsClosed
PROPERTIES SequentialMeaning RefusalNeedsOpen ServersIndependent
CHECK_DEADLOCK FALSE
