----------------------------- MODULE MC_Flight -----------------------------
EXTENDS Flight
SameZone == [k \in Keys |-> "z1"]
TwoZones == [k \in Keys |-> IF k = "k1" THEN "z1" ELSE "z2"]
Zones3 == [k \in Keys |-> IF k = "k3" THEN "z2" ELSE "z1"]
=============================================================================
