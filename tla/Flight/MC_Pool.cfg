CONSTANTS
  Jobs = {1, 2, 3, 4}
  Cap = 2
  ShedReleases = FALSE
  HolderReleases = TRUE
SPECIFICATION Spec
INVARIANTS TypeOK Bounded Accounting ReleasedOnce Balanced
PROPERTIES ShedOnlyWhenFull
CHECK_DEADLOCK FALSE
