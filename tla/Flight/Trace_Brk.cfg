CONSTANTS
  Servers = {"s1"}
  Procs = {1, 2, 3, 4}
  N = 5
  Cool = 2
  Evict = 19
  MaxOps = 100000
  MaxTicks = 100000
  Atomic = FALSE
  TripGe = TRUE
  CoolOn = TRUE
  ResetOn = TRUE
  SearchBudget = 1500000
SPECIFICATION TraceSpec
INVARIANTS TypeOK AbsentIsClosed NotDone
PROPERTIES RefusalNeedsOpen
CONSTRAINT WithinBudget
CHECK_DEADLOCK FALSE
