------------------------------- MODULE Flight -------------------------------
(***************************************************************************)
(* Shared upstream lookups and the resolver's capacity slots.               *)
(*                                                                         *)
(*   middleware/resolver/singleflight_wrapper.go  SingleflightWrapper       *)
(*       DoChan / TimedDoChanWithRole / retireGeneration / Forget /         *)
(*       cleanupStuckQueries, on top of x/sync singleflight.Group           *)
(*       (DoChan, doCall, Forget)                                           *)
(*   middleware/resolver/resolver.go   Resolver.groupLookup (leader closure,*)
(*       per-caller copy, regroup loop), Resolver.lookup / queryServer as   *)
(*       far as the maxConcurrent slot is concerned                         *)
(*   middleware/resolver/zone_inflight.go   zoneInflightLimiter.acquire     *)
(*                                                                         *)
(* One action per critical section / atomic step of the code:               *)
(*   Invoke(c,k)      a caller enters groupLookup (fresh context, own id)   *)
(*   DoChan(c)        SingleflightWrapper.DoChan under generationMu + the   *)
(*                    group's mutex: join the registered call (dups++, one  *)
(*                    more result channel) or register a new call and spawn *)
(*                    doCall                                                *)
(*   LeaderStart(f)   the selected closure: tracking.Store under            *)
(*                    generationMu when its generation is still current;    *)
(*                    ran.Store(true)                                       *)
(*   AcqRes(f)        non-blocking send on resolutionSlots | shed           *)
(*   ZoneAdd(f)       bucket.Add(1) > perZone ?                             *)
(*   ZoneBack(f)      bucket.Add(-1) of a refused acquire                   *)
(*   AcqMC(f)         lookup: blocking send on maxConcurrent (the attempt)  *)
(*   LookupCancel(f)  lookup leaves on its (the leader's) context           *)
(*   Reply(f,o)       ENVIRONMENT: the upstream server answers the attempt  *)
(*   LookupReturn(f)  queryServer releases its maxConcurrent slot and hands *)
(*                    the result to lookup, which returns it                *)
(*   AttemptExit(f)   queryServer of a lookup that already left: releases   *)
(*                    the maxConcurrent slot on its own                     *)
(*   RelZone, RelRes  the closure's deferred releases (LIFO)                *)
(*   Retire(f)        retireGeneration: Forget + delete(current) iff the    *)
(*                    generation is still current; tracking.CompareAndDelete*)
(*   Deliver(f)       doCall's epilogue under the group's mutex: delete the *)
(*                    key iff it still maps to this call, send              *)
(*                    Result{val, err, dups > 0} on every channel           *)
(*   Recv(c)/CtxLeave(c)  the select in TimedDoChanWithRole                 *)
(*   Post(c)          groupLookup after the select: regroup on a shared     *)
(*                    request-local error, copy when shared, set own id     *)
(*   Cancel(c)        ENVIRONMENT: the caller's context ends                *)
(*   ForgetKey(k)     SingleflightWrapper.Forget (exported API)             *)
(*   StuckScan(k) / StuckRetire(k)  cleanupStuckQueries: the Range scan     *)
(*                    observes an aged generation, then retires exactly it  *)
(*                                                                         *)
(* Deliberate abstractions (named):                                         *)
(*  - one upstream server per lookup, so one attempt / one maxConcurrent    *)
(*    slot per flight; the fan-out over several servers is not modelled     *)
(*  - the stuck-call clock is abstract: StuckScan may observe any tracked   *)
(*    generation as aged                                                    *)
(*  - a result sent to the channel of a caller that already left is         *)
(*    unobservable; the model removes that caller from chans instead        *)
(*  - outcomes: ok (any response, rcode is data), fail (shared upstream     *)
(*    error), local (request-local: the leader's context ended), capRes /   *)
(*    capZone (capacity refusals; as built before the repair they were NOT  *)
(*    request-local for the regroup rule and reached every caller that had  *)
(*    joined that flight: switch CapRegroup, property CapacityPrivate)      *)
(*  - panics inside the closure are not modelled: x/sync re-panics on a     *)
(*    fresh goroutine (process-fatal by design)                             *)
(*                                                                         *)
(* Coarse = TRUE restricts the environment / API steps (Invoke, Cancel,     *)
(* Reply, ForgetKey, StuckScan) to quiescent states (no internal step       *)
(* enabled): exactly the schedules a harness can force through the gates    *)
(* the code offers (the upstream server, contexts, API calls).  Coarse =    *)
(* FALSE lets everything interleave (exhaustive check, trace validation).   *)
(***************************************************************************)
EXTENDS Integers, FiniteSets, TLC

CONSTANTS
  Callers,      \* caller ids (also the DNS message id each caller's query carries)
  Keys,         \* lookup keys (question x zone x CD x authority fingerprint)
  ZoneOf,       \* [Keys -> zone]
  ResCap,       \* cap(resolutionSlots)
  ZoneCap,      \* zoneInflightLimiter.perZone
  MaxC,         \* cap(maxConcurrent)
  MaxFlights,   \* bound: flights (registered calls) per behaviour
  MaxCalls,     \* bound: invocations of groupLookup per behaviour
  MaxEnv,       \* bound: ForgetKey / StuckScan steps per behaviour
  Ops,          \* SUBSET {"cancel", "fail", "forget", "stuck"}: environment steps allowed
  Coarse,       \* see above
  \* guards of the code; FALSE only in the negative (mutant) configs
  CopyShared,   \* groupLookup: `if shared { resp = resp.Copy() }`
  OwnId,        \* groupLookup: `resp.Id = req.Id`
  RetireById,   \* retireGeneration: `if w.current[key] == generation`
  RelOnRefusal, \* the resolution slot's deferred release also covers the zone-refusal return
  CtxSelect,    \* TimedDoChanWithRole: the `case <-ctx.Done()` arm of the select
  CapRegroup    \* groupLookup: a follower handed the LEADER's capacity refusal regroups under its own context, as it
                \* does for the leader's request-local errors (FALSE = as built before the repair: the refusal of the
                \* one caller whose closure ran reached every caller that had joined its flight)

Zones == {ZoneOf[k] : k \in Keys}
Flights == 1..MaxFlights

VARIABLES
  m,        \* [Keys -> 0..MaxFlights]   singleflight.Group.m : key -> registered call
  cur,      \* [Keys -> gen]             SingleflightWrapper.current
  track,    \* [Keys -> gen]             SingleflightWrapper.tracking
  scan,     \* [Keys -> gen]             cleanupStuckQueries: generation observed by the scan, not yet retired
  nf, ng,   \* flights / generation tokens allocated
  fl,       \* [Flights -> flight record]
  cl,       \* [Callers -> caller record]
  resUsed,  \* len(resolutionSlots)
  zb,       \* [Zones -> Int] zone bucket counters
  mcUsed,   \* len(maxConcurrent)
  \* ghosts / bounds
  ncalls, nenv,
  last,     \* [Callers -> outcome of the last completed invocation]
  aliasOf,  \* [Flights -> SUBSET Callers] callers that kept the flight's own message object
  recvOf    \* [Flights -> SUBSET Callers] callers that returned a response of the flight

vars == <<m, cur, track, scan, nf, ng, fl, cl, resUsed, zb, mcUsed, ncalls, nenv, last, aliasOf, recvOf>>
wrapVars == <<m, cur, track, scan>>
slotVars == <<resUsed, zb, mcUsed>>
ghostVars == <<last, aliasOf, recvOf>>

Outcomes == {"none", "ok", "fail", "local", "capRes", "capZone", "ctx"}
Phases == {"none", "spawn", "res", "zadd", "zback", "mc", "lookup", "relzone", "relres", "retire", "sfdone", "delivered"}
PreRetire == {"spawn", "res", "zadd", "zback", "mc", "lookup", "relzone", "relres", "retire"}

NoBox == [o |-> "none", sh |-> FALSE]
NoFlight == [key |-> CHOOSE k \in Keys : TRUE, gen |-> 0, leader |-> CHOOSE c \in Callers : TRUE, lgone |-> FALSE,
             phase |-> "none", dups |-> 0, chans |-> {}, out |-> "none", reply |-> "none", cancel |-> FALSE,
             hRes |-> FALSE, hZone |-> FALSE, hMC |-> FALSE, att |-> FALSE, forgot |-> FALSE]
IdleCaller == [pc |-> "idle", key |-> CHOOSE k \in Keys : TRUE, ctx |-> FALSE, fl |-> 0, lead |-> FALSE, ran |-> FALSE,
               box |-> NoBox, res |-> NoBox]
NoLast == [o |-> "none", f |-> 0, key |-> CHOOSE k \in Keys : TRUE, alias |-> FALSE, id |-> 0, ctxWas |-> FALSE]

Init ==
  /\ m = [k \in Keys |-> 0] /\ cur = [k \in Keys |-> 0] /\ track = [k \in Keys |-> 0] /\ scan = [k \in Keys |-> 0]
  /\ nf = 0 /\ ng = 0
  /\ fl = [f \in Flights |-> NoFlight]
  /\ cl = [c \in Callers |-> IdleCaller]
  /\ resUsed = 0 /\ zb = [z \in Zones |-> 0] /\ mcUsed = 0
  /\ ncalls = 0 /\ nenv = 0
  /\ last = [c \in Callers |-> NoLast]
  /\ aliasOf = [f \in Flights |-> {}] /\ recvOf = [f \in Flights |-> {}]

(* ---- which internal steps are enabled (quiescence) --------------------------- *)
FlightBusy(f) ==
  LET x == fl[f] IN
  \/ x.phase \in {"spawn", "res", "zadd", "zback", "relzone", "relres", "retire", "sfdone"}
  \/ x.phase = "mc" /\ (mcUsed < MaxC \/ x.cancel)
  \/ x.phase = "lookup" /\ (x.reply # "none" \/ x.cancel)
  \/ x.hMC /\ x.phase \notin {"mc", "lookup"}
CallerBusy(c) ==
  \/ cl[c].pc \in {"dochan", "post"}
  \/ cl[c].pc = "wait" /\ (cl[c].box.o # "none" \/ (cl[c].ctx /\ CtxSelect))
Busy == (\E f \in Flights : FlightBusy(f)) \/ (\E c \in Callers : CallerBusy(c)) \/ (\E k \in Keys : scan[k] # 0)
EnvOK == Coarse => ~Busy

(* ---- callers ------------------------------------------------------------------ *)
(* groupLookup entered: leaderReq := req.Copy() touches nothing shared *)
Invoke(c, k) ==
  /\ EnvOK
  /\ cl[c].pc = "idle" /\ ncalls < MaxCalls
  /\ cl' = [cl EXCEPT ![c] = [IdleCaller EXCEPT !.pc = "dochan", !.key = k]]
  /\ ncalls' = ncalls + 1
  /\ last' = [last EXCEPT ![c] = NoLast]
  /\ UNCHANGED <<wrapVars, nf, ng, fl, slotVars, nenv, aliasOf, recvOf>>

(* SingleflightWrapper.DoChan: one critical section of generationMu around group.DoChan *)
DoChan(c) ==
  LET k == cl[c].key
      g == IF cur[k] = 0 THEN ng + 1 ELSE cur[k] IN
  /\ cl[c].pc = "dochan"
  /\ cur' = [cur EXCEPT ![k] = g]
  /\ ng' = IF cur[k] = 0 THEN ng + 1 ELSE ng
  /\ IF m[k] # 0
       THEN /\ fl' = [fl EXCEPT ![m[k]].dups = @ + 1, ![m[k]].chans = @ \cup {c}]
            /\ cl' = [cl EXCEPT ![c].pc = "wait", ![c].fl = m[k], ![c].lead = FALSE, ![c].ran = FALSE, ![c].box = NoBox]
            /\ UNCHANGED <<m, nf>>
       ELSE /\ nf < MaxFlights
            /\ nf' = nf + 1
            /\ fl' = [fl EXCEPT ![nf + 1] = [NoFlight EXCEPT !.key = k, !.gen = g, !.leader = c, !.phase = "spawn",
                                                           !.chans = {c}, !.cancel = cl[c].ctx]]
            /\ m' = [m EXCEPT ![k] = nf + 1]
            /\ cl' = [cl EXCEPT ![c].pc = "wait", ![c].fl = nf + 1, ![c].lead = TRUE, ![c].ran = FALSE, ![c].box = NoBox]
  /\ UNCHANGED <<track, scan, slotVars, ncalls, nenv, ghostVars>>

(* select: the result arrived *)
Recv(c) ==
  /\ cl[c].pc = "wait" /\ cl[c].box.o # "none"
  /\ cl' = [cl EXCEPT ![c].pc = "post", ![c].res = cl[c].box]
  /\ UNCHANGED <<wrapVars, nf, ng, fl, slotVars, ncalls, nenv, ghostVars>>

(* select: <-ctx.Done(); nothing is forgotten, the flight keeps running *)
CtxLeave(c) ==
  LET f == cl[c].fl IN
  /\ CtxSelect
  /\ cl[c].pc = "wait" /\ cl[c].ctx
  /\ cl' = [cl EXCEPT ![c].pc = "post", ![c].res = [o |-> "ctx", sh |-> FALSE]]
  /\ fl' = [fl EXCEPT ![f].chans = @ \ {c}, ![f].lgone = IF cl[c].lead THEN TRUE ELSE @]
  /\ UNCHANGED <<wrapVars, nf, ng, slotVars, ncalls, nenv, ghostVars>>

(* groupLookup after TimedDoChanWithRole returned *)
Return(c, o, alias) ==
  LET f == cl[c].fl IN
  /\ cl' = [cl EXCEPT ![c].pc = "idle"]
  /\ last' = [last EXCEPT ![c] = [o |-> o, f |-> f, key |-> cl[c].key, alias |-> alias,
                                  id |-> IF o # "ok" THEN 0 ELSE IF OwnId THEN c ELSE fl[f].leader,
                                  ctxWas |-> cl[c].ctx]]
  /\ aliasOf' = IF o = "ok" /\ alias THEN [aliasOf EXCEPT ![f] = @ \cup {c}] ELSE aliasOf
  /\ recvOf' = IF o = "ok" THEN [recvOf EXCEPT ![f] = @ \cup {c}] ELSE recvOf

Post(c) ==
  LET r == cl[c].res IN
  /\ cl[c].pc = "post"
  /\ CASE r.o = "ctx" -> Return(c, "ctx", FALSE)
       [] r.o = "local" ->
            IF r.sh /\ ~cl[c].ran
              THEN IF cl[c].ctx
                     THEN Return(c, "ctx", FALSE)                       \* EffectiveError(ctx) # nil
                     ELSE /\ cl' = [cl EXCEPT ![c].pc = "dochan", ![c].res = NoBox]   \* `continue`
                          /\ UNCHANGED ghostVars
              ELSE Return(c, "local", FALSE)
       [] r.o \in {"capRes", "capZone"} ->
            IF CapRegroup /\ r.sh /\ ~cl[c].ran
              THEN IF cl[c].ctx
                     THEN Return(c, "ctx", FALSE)
                     ELSE /\ cl' = [cl EXCEPT ![c].pc = "dochan", ![c].res = NoBox]   \* `continue`
                          /\ UNCHANGED ghostVars
              ELSE Return(c, r.o, FALSE)
       [] r.o = "fail" -> Return(c, "fail", FALSE)
       [] r.o = "ok" -> Return(c, "ok", IF CopyShared THEN ~r.sh ELSE TRUE)
  /\ UNCHANGED <<wrapVars, nf, ng, fl, slotVars, ncalls, nenv>>

(* ENVIRONMENT: the caller's context ends (timeout, client gone) *)
Cancel(c) ==
  /\ "cancel" \in Ops
  /\ EnvOK
  /\ cl[c].pc \in {"dochan", "wait", "post"} /\ ~cl[c].ctx
  /\ cl' = [cl EXCEPT ![c].ctx = TRUE]
  /\ fl' = IF cl[c].pc = "wait" /\ cl[c].lead /\ fl[cl[c].fl].phase \in {"spawn", "res", "zadd", "zback", "mc", "lookup"}
             THEN [fl EXCEPT ![cl[c].fl].cancel = TRUE] ELSE fl
  /\ UNCHANGED <<wrapVars, nf, ng, slotVars, ncalls, nenv, ghostVars>>

(* ---- the leader closure (doCall goroutine) -------------------------------------- *)
LeaderStart(f) ==
  LET x == fl[f]  k == x.key IN
  /\ x.phase = "spawn"
  /\ track' = IF cur[k] = x.gen THEN [track EXCEPT ![k] = x.gen] ELSE track
  /\ fl' = [fl EXCEPT ![f].phase = "res"]
  /\ cl' = IF ~x.lgone THEN [cl EXCEPT ![x.leader].ran = TRUE] ELSE cl
  /\ UNCHANGED <<m, cur, scan, nf, ng, slotVars, ncalls, nenv, ghostVars>>

AcqRes(f) ==
  /\ fl[f].phase = "res"
  /\ IF resUsed < ResCap
       THEN /\ resUsed' = resUsed + 1
            /\ fl' = [fl EXCEPT ![f].phase = "zadd", ![f].hRes = TRUE]
       ELSE /\ fl' = [fl EXCEPT ![f].phase = "retire", ![f].out = "capRes"]      \* errResolutionCapacity
            /\ UNCHANGED resUsed
  /\ UNCHANGED <<wrapVars, nf, ng, cl, zb, mcUsed, ncalls, nenv, ghostVars>>

ZoneAdd(f) ==
  LET z == ZoneOf[fl[f].key] IN
  /\ fl[f].phase = "zadd"
  /\ zb' = [zb EXCEPT ![z] = @ + 1]
  /\ fl' = IF zb[z] + 1 > ZoneCap THEN [fl EXCEPT ![f].phase = "zback"]
           ELSE [fl EXCEPT ![f].phase = "mc", ![f].hZone = TRUE]
  /\ UNCHANGED <<wrapVars, nf, ng, cl, resUsed, mcUsed, ncalls, nenv, ghostVars>>

ZoneBack(f) ==
  LET z == ZoneOf[fl[f].key] IN
  /\ fl[f].phase = "zback"
  /\ zb' = [zb EXCEPT ![z] = @ - 1]
  /\ fl' = [fl EXCEPT ![f].phase = IF RelOnRefusal THEN "relres" ELSE "retire", ![f].out = "capZone"]   \* errZoneCapacity
  /\ UNCHANGED <<wrapVars, nf, ng, cl, resUsed, mcUsed, ncalls, nenv, ghostVars>>

AcqMC(f) ==
  /\ fl[f].phase = "mc" /\ mcUsed < MaxC
  /\ mcUsed' = mcUsed + 1
  /\ fl' = [fl EXCEPT ![f].phase = "lookup", ![f].hMC = TRUE, ![f].att = TRUE]     \* `go r.queryServer(...)`
  /\ UNCHANGED <<wrapVars, nf, ng, cl, resUsed, zb, ncalls, nenv, ghostVars>>

LookupCancel(f) ==
  /\ fl[f].phase \in {"mc", "lookup"} /\ fl[f].cancel
  /\ fl' = [fl EXCEPT ![f].phase = "relzone", ![f].out = "local"]
  /\ UNCHANGED <<wrapVars, nf, ng, cl, slotVars, ncalls, nenv, ghostVars>>

(* ENVIRONMENT: the upstream server answers (o = "ok") or the exchange fails for good (o = "fail") *)
Reply(f, o) ==
  /\ EnvOK
  /\ o = "fail" => "fail" \in Ops
  /\ fl[f].phase = "lookup" /\ fl[f].reply = "none"
  /\ fl' = [fl EXCEPT ![f].reply = o]
  /\ UNCHANGED <<wrapVars, nf, ng, cl, slotVars, ncalls, nenv, ghostVars>>

LookupReturn(f) ==
  /\ fl[f].phase = "lookup" /\ fl[f].reply # "none"
  /\ mcUsed' = mcUsed - 1
  /\ fl' = [fl EXCEPT ![f].phase = "relzone", ![f].out = fl[f].reply, ![f].hMC = FALSE]
  /\ UNCHANGED <<wrapVars, nf, ng, cl, resUsed, zb, ncalls, nenv, ghostVars>>

AttemptExit(f) ==
  /\ fl[f].hMC /\ fl[f].phase \notin {"mc", "lookup"}
  /\ mcUsed' = mcUsed - 1
  /\ fl' = [fl EXCEPT ![f].hMC = FALSE]
  /\ UNCHANGED <<wrapVars, nf, ng, cl, resUsed, zb, ncalls, nenv, ghostVars>>

RelZone(f) ==
  LET z == ZoneOf[fl[f].key] IN
  /\ fl[f].phase = "relzone"
  /\ zb' = [zb EXCEPT ![z] = @ - 1]
  /\ fl' = [fl EXCEPT ![f].phase = "relres", ![f].hZone = FALSE]
  /\ UNCHANGED <<wrapVars, nf, ng, cl, resUsed, mcUsed, ncalls, nenv, ghostVars>>

RelRes(f) ==
  /\ fl[f].phase = "relres"
  /\ resUsed' = resUsed - 1
  /\ fl' = [fl EXCEPT ![f].phase = "retire", ![f].hRes = FALSE]
  /\ UNCHANGED <<wrapVars, nf, ng, cl, zb, mcUsed, ncalls, nenv, ghostVars>>

(* retireGeneration(key, generation), one critical section of generationMu *)
RetireGen(k, g) ==
  /\ IF RetireById => cur[k] = g
       THEN m' = [m EXCEPT ![k] = 0] /\ cur' = [cur EXCEPT ![k] = 0]
       ELSE UNCHANGED <<m, cur>>
  /\ track' = IF track[k] = g \/ ~RetireById THEN [track EXCEPT ![k] = 0] ELSE track

Retire(f) ==
  /\ fl[f].phase = "retire"
  /\ RetireGen(fl[f].key, fl[f].gen)
  /\ fl' = [fl EXCEPT ![f].phase = "sfdone"]
  /\ UNCHANGED <<scan, nf, ng, cl, slotVars, ncalls, nenv, ghostVars>>

Deliver(f) ==
  LET x == fl[f]  k == x.key IN
  /\ x.phase = "sfdone"
  /\ m' = IF m[k] = f THEN [m EXCEPT ![k] = 0] ELSE m
  /\ cl' = [c \in Callers |-> IF c \in x.chans THEN [cl[c] EXCEPT !.box = [o |-> x.out, sh |-> x.dups > 0]] ELSE cl[c]]
  /\ fl' = [fl EXCEPT ![f].phase = "delivered", ![f].chans = {}]
  /\ UNCHANGED <<cur, track, scan, nf, ng, slotVars, ncalls, nenv, ghostVars>>

(* ---- wrapper API / periodic cleanup --------------------------------------------- *)
MarkForgot(k) == [f \in Flights |-> IF fl[f].key = k /\ m[k] = f THEN [fl[f] EXCEPT !.forgot = TRUE] ELSE fl[f]]

ForgetKey(k) ==
  /\ "forget" \in Ops /\ nenv < MaxEnv /\ cur[k] # 0
  /\ EnvOK
  /\ m' = [m EXCEPT ![k] = 0] /\ cur' = [cur EXCEPT ![k] = 0]
  /\ track' = IF cur[k] = 0 \/ track[k] = cur[k] THEN [track EXCEPT ![k] = 0] ELSE track
  /\ fl' = MarkForgot(k)
  /\ nenv' = nenv + 1
  /\ UNCHANGED <<scan, nf, ng, cl, slotVars, ncalls, ghostVars>>

StuckScan(k) ==
  /\ "stuck" \in Ops /\ nenv < MaxEnv
  /\ EnvOK
  /\ track[k] # 0 /\ scan[k] = 0
  /\ scan' = [scan EXCEPT ![k] = track[k]]
  /\ nenv' = nenv + 1
  /\ UNCHANGED <<m, cur, track, nf, ng, fl, cl, slotVars, ncalls, ghostVars>>

StuckRetire(k) ==
  /\ scan[k] # 0
  /\ RetireGen(k, scan[k])
  /\ fl' = IF cur[k] = scan[k] \/ ~RetireById THEN MarkForgot(k) ELSE fl
  /\ scan' = [scan EXCEPT ![k] = 0]
  /\ UNCHANGED <<nf, ng, cl, slotVars, ncalls, nenv, ghostVars>>

Internal ==
  \/ \E c \in Callers : DoChan(c) \/ Recv(c) \/ CtxLeave(c) \/ Post(c)
  \/ \E f \in Flights : LeaderStart(f) \/ AcqRes(f) \/ ZoneAdd(f) \/ ZoneBack(f) \/ AcqMC(f) \/ LookupCancel(f)
                        \/ LookupReturn(f) \/ AttemptExit(f) \/ RelZone(f) \/ RelRes(f) \/ Retire(f) \/ Deliver(f)
  \/ \E k \in Keys : StuckRetire(k)
Env ==
  \/ \E c \in Callers, k \in Keys : Invoke(c, k)
  \/ \E c \in Callers : Cancel(c)
  \/ \E f \in Flights, o \in {"ok", "fail"} : Reply(f, o)
  \/ \E k \in Keys : ForgetKey(k) \/ StuckScan(k)
Next == Internal \/ Env

Spec == Init /\ [][Next]_vars
(* liveness: the code's own steps are taken, and the upstream eventually answers or fails *)
FairSpec == Spec /\ WF_vars(Internal) /\ WF_vars(\E f \in Flights : Reply(f, "ok"))
(* ... or never does: a caller whose context ended must still get away *)
FairSpecSilentUpstream == Spec /\ WF_vars(Internal)

(* ------------------------------- properties ---------------------------------- *)
Card(S) == Cardinality(S)
Used == 1..nf
ZoneOfF(f) == ZoneOf[fl[f].key]

TypeOK ==
  /\ m \in [Keys -> 0..MaxFlights] /\ cur \in [Keys -> 0..(MaxFlights + MaxCalls)]
  /\ track \in [Keys -> 0..(MaxFlights + MaxCalls)] /\ scan \in [Keys -> 0..(MaxFlights + MaxCalls)]
  /\ nf \in 0..MaxFlights
  /\ \A f \in Flights : /\ fl[f].phase \in Phases /\ fl[f].out \in Outcomes /\ fl[f].dups \in Nat
                        /\ fl[f].chans \subseteq Callers /\ fl[f].key \in Keys /\ fl[f].leader \in Callers
  /\ \A c \in Callers : /\ cl[c].pc \in {"idle", "dochan", "wait", "post"} /\ cl[c].fl \in 0..MaxFlights
                        /\ cl[c].box.o \in Outcomes /\ cl[c].res.o \in Outcomes
  /\ resUsed \in 0..ResCap                     \* never negative, never above capacity
  /\ mcUsed \in 0..MaxC
  /\ \A z \in Zones : zb[z] \in Nat            \* never negative (the raw counter may overshoot transiently)

(* C10: per-caller copies *)
(* the message object a flight produced is kept by at most one caller, and then nobody else received it *)
OwnCopy ==
  \A f \in Flights : /\ Card(aliasOf[f]) <= 1
                     /\ aliasOf[f] # {} => (recvOf[f] = aliasOf[f] /\ fl[f].dups = 0)
(* every returned response carries the id of the caller's own query *)
OwnId_ == \A c \in Callers : last[c].id \in {0, c}
(* and answers the caller's own key (question) *)
OwnQuestion == \A c \in Callers : last[c].o # "none" /\ last[c].f # 0 => fl[last[c].f].key = last[c].key

(* a context error reaches only the caller whose context ended; a follower never inherits the
   leader's cancellation (it regroups under its own context) *)
CtxPrivate == \A c \in Callers : last[c].o \in {"ctx", "local"} => last[c].ctxWas
(* whatever else a caller returns is what the flight it joined produced for that key: a capacity
   refusal or an upstream failure never leaks into another key's callers *)
ErrorsFromOwnFlight ==
  \A c \in Callers : last[c].o \in {"ok", "fail", "capRes", "capZone"} =>
     /\ fl[last[c].f].out = last[c].o /\ fl[last[c].f].key = last[c].key

(* C11: "capacity-refused resolution surfaces as SERVFAIL to that client only; it neither wedges nor fails other
   clients waiting on the same name": a caller returns a capacity refusal only when its OWN closure asked for the
   slot and was refused *)
CapacityPrivate ==
  \A c \in Callers : last[c].o \in {"capRes", "capZone"} => fl[last[c].f].leader = c

(* a waiting caller is attached to a flight that still owes it a result (nobody is wedged on a
   finished flight, and a caller never joins a flight that already delivered) *)
WaitersAttached ==
  \A c \in Callers : (cl[c].pc = "wait" /\ cl[c].box.o = "none") =>
     /\ cl[c].fl \in Used /\ fl[cl[c].fl].phase # "delivered" /\ c \in fl[cl[c].fl].chans
JoinsOnlyLive ==
  [][\A c \in Callers : (cl[c].pc = "dochan" /\ cl'[c].pc = "wait") => fl'[cl'[c].fl].phase \notin {"sfdone", "delivered"}]_vars

(* the flight is forgotten when it completes *)
ForgottenWhenDone ==
  \A f \in Used : fl[f].phase = "delivered" =>
     /\ m[fl[f].key] # f /\ cur[fl[f].key] # fl[f].gen /\ track[fl[f].key] # fl[f].gen
(* ... and only then, unless explicitly forgotten: cleanup for an old generation never forgets a newer one *)
LiveRegistered ==
  \A f \in Used : (fl[f].phase \in PreRetire /\ ~fl[f].forgot) => (m[fl[f].key] = f /\ cur[fl[f].key] = fl[f].gen)
MapsInSync == \A k \in Keys : (m[k] = 0) = (cur[k] = 0)
TrackedIsCurrent == \A k \in Keys : track[k] # 0 => (track[k] = cur[k] \/ scan[k] # 0 \/ ~RetireById)
(* deduplication: one live, unforgotten flight per key *)
OneLivePerKey ==
  \A f, g \in Used : (f # g /\ fl[f].key = fl[g].key /\ fl[f].phase \in PreRetire /\ fl[g].phase \in PreRetire)
                       => (fl[f].forgot \/ fl[g].forgot)

(* C11: every slot acquired is released exactly once *)
SlotAccounting ==
  /\ resUsed = Card({f \in Used : fl[f].hRes})
  /\ mcUsed = Card({f \in Used : fl[f].hMC})
  /\ \A z \in Zones : zb[z] = Card({f \in Used : ZoneOfF(f) = z /\ (fl[f].hZone \/ fl[f].phase = "zback")})
  /\ \A z \in Zones : Card({f \in Used : ZoneOfF(f) = z /\ fl[f].hZone}) <= ZoneCap
(* a holder is in the part of the closure that holds *)
HoldersRunning ==
  \A f \in Used : /\ fl[f].hRes => fl[f].phase \in {"zadd", "zback", "mc", "lookup", "relzone", "relres"}
                  /\ fl[f].hZone => fl[f].phase \in {"mc", "lookup", "relzone"}
NoFlightRunning == \A f \in Used : fl[f].phase = "delivered" /\ ~fl[f].hMC
Quiescent == NoFlightRunning /\ \A c \in Callers : cl[c].pc = "idle"
SlotsBalanced ==
  NoFlightRunning => /\ resUsed = 0 /\ mcUsed = 0 /\ \A z \in Zones : zb[z] = 0
                     /\ \A k \in Keys : m[k] = 0 /\ cur[k] = 0 /\ (scan[k] = 0 => track[k] = 0)
(* a capacity refusal holds nothing afterwards *)
RefusalHoldsNothing ==
  \A f \in Used : fl[f].phase \in {"retire", "sfdone", "delivered"} => (~fl[f].hRes /\ ~fl[f].hZone)

(* liveness (FairSpec): every invocation returns *)
EveryCallReturns == \A c \in Callers : (cl[c].pc # "idle") ~> (cl[c].pc = "idle")
EventuallyQuiet == []<>(NoFlightRunning)
(* a caller whose context ended leaves, whatever the upstream does (FairSpecSilentUpstream) *)
CancelledLeaves == \A c \in Callers : (cl[c].pc = "wait" /\ cl[c].ctx) ~> (cl[c].pc = "idle")
=============================================================================
