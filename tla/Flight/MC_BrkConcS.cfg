CONSTANTS
  Servers = {"s1"}
  Procs = {1, 2}
  N = 2
  Cool = 2
  Evict = 19
  MaxOps = 2
  MaxTicks = 0
  Atomic = FALSE
  TripGe = TRUE
  CoolOn = TRUE
  ResetOn = TRUE
SPECIFICATION Spec
INVARIANTS TypeOK OpenIffStreak AbsentIsClosed
PROPERTIES SequentialMeaning RefusalNeedsOpen ServersIndependent
CHECK_DEADLOCK FALSE
