CONSTANTS
  Callers = {1, 2}
  Keys = {"k1"}
  ZoneOf <- SameZone
  ResCap = 1
  ZoneCap = 1
  MaxC = 1
  MaxFlights = 2
  MaxCalls = 2
  MaxEnv = 1
  Ops = {"cancel", "fail"}
  Coarse = FALSE
  CopyShared = TRUE
  OwnId = TRUE
  RetireById = TRUE
  RelOnRefusal = TRUE
  CtxSelect = TRUE
  CapRegroup = TRUE
SPECIFICATION FairSpec
INVARIANTS TypeOK
PROPERTIES EveryCallReturns EventuallyQuiet
CHECK_DEADLOCK FALSE
