\* capacity refusals are private to the caller whose own closure was refused (C11): a holder on k2, a leader and a
\* follower on k1, everything interleaves.  
CONSTANTS
  Callers = {1, 2, 3}
  Keys = {"k1", "k2"}
  ZoneOf <- SameZone
  ResCap = 1
  ZoneCap = 2
  MaxC = 2
  MaxFlights = 4
  MaxCalls = 3
  MaxEnv = 0
  Ops = {}
  Coarse = FALSE
  CopyShared = TRUE
  OwnId = TRUE
  RetireById = TRUE
  RelOnRefusal = TRUE
  CtxSelect = TRUE
  CapRegroup = TRUE
SPECIFICATION Spec
INVARIANTS TypeOK CapacityPrivate OwnCopy OwnId_ OwnQuestion CtxPrivate ErrorsFromOwnFlight WaitersAttached ForgottenWhenDone LiveRegistered MapsInSync TrackedIsCurrent OneLivePerKey SlotAccounting HoldersRunning SlotsBalanced RefusalHoldsNothing
CHECK_DEADLOCK FALSE
