-------------------------------- MODULE Pool --------------------------------
(***************************************************************************)
(* The resolver's try-acquire pools for detached work:                      *)
(*   probeSlots     Resolver.queryServer, exploration probe outliving its   *)
(*                  lookup: `select { case r.probeSlots <- struct{}{}:      *)
(*                  defer func(){ <-r.probeSlots }() ... default: shed }`   *)
(*   v6LookupSlots  processDelegation, detached IPv6 NS enrichment job:     *)
(*                  non-blocking acquire, `spawn = false` when full, the    *)
(*                  job's deferred `<-r.v6LookupSlots`                      *)
(* A job either takes a slot or is shed (the probe runs as an ordinary      *)
(* hedge, the enrichment is skipped) -- never queued, never an error to the *)
(* client; a holder releases exactly once when the job ends, a shed job     *)
(* never releases.                                                          *)
(*   TryAcquire(j)  the non-blocking send                                   *)
(*   Finish(j)      the job ends (reply, socket deadline, cancellation):    *)
(*                  the deferred receive of a holder                        *)
(***************************************************************************)
EXTENDS Integers, FiniteSets, TLC

CONSTANTS
  Jobs, Cap,
  ShedReleases,   \* FALSE in the code.  TRUE: a shed job also runs the release (mutant)
  HolderReleases  \* TRUE in the code.   FALSE: the holder's release is lost (mutant)

VARIABLES used, st, rel
vars == <<used, st, rel>>

Init == used = 0 /\ st = [j \in Jobs |-> "new"] /\ rel = [j \in Jobs |-> 0]

TryAcquire(j) ==
  /\ st[j] = "new"
  /\ IF used < Cap THEN used' = used + 1 /\ st' = [st EXCEPT ![j] = "held"]
                   ELSE UNCHANGED used /\ st' = [st EXCEPT ![j] = "shed"]
  /\ UNCHANGED rel

Finish(j) ==
  /\ st[j] \in {"held", "shed"}
  /\ st' = [st EXCEPT ![j] = "done"]
  /\ IF (st[j] = "held" /\ HolderReleases) \/ (st[j] = "shed" /\ ShedReleases)
       THEN used' = used - 1 /\ rel' = [rel EXCEPT ![j] = @ + 1]
       ELSE UNCHANGED <<used, rel>>

Next == \E j \in Jobs : TryAcquire(j) \/ Finish(j)
Spec == Init /\ [][Next]_vars

TypeOK == used \in Int /\ st \in [Jobs -> {"new", "held", "shed", "done"}]
(* never negative, never above capacity, and exactly the holders *)
Bounded == used >= 0 /\ used <= Cap
Accounting == used = Cardinality({j \in Jobs : st[j] = "held"})
ReleasedOnce == \A j \in Jobs : rel[j] <= 1 /\ (st[j] = "done" => rel[j] <= 1)
Balanced == (\A j \in Jobs : st[j] \in {"new", "done"}) => used = 0
ShedOnlyWhenFull == [][\A j \in Jobs : (st[j] = "new" /\ st'[j] = "shed") => used = Cap]_vars
=============================================================================
