CONSTANTS
  Servers = {"s1", "s2"}
  Procs = {1}
  N = 5
  Cool = 2
  Evict = 19
  MaxOps = 60
  MaxTicks = 10
  Atomic = TRUE
  TripGe = TRUE
  CoolOn = TRUE
  ResetOn = TRUE
INIT Init
NEXT Next
CHECK_DEADLOCK FALSE
