--------------------------- MODULE Monitor_Flight ---------------------------
(***************************************************************************)
(* Property monitor over a recorded history of the real                     *)
(* Resolver.groupLookup (same NDJSON as Trace_Flight.tla, any number of     *)
(* concurrent callers).  No implementation model: one state per line, the   *)
(* predicates of the property statement are evaluated on what the code did: *)
(*   OwnQuestion      a response came from an upstream attempt for the      *)
(*                    caller's own key (question)                           *)
(*   OwnReply         it carried the caller's own id / question (evaluated  *)
(*                    on the message by the driver, asserted here)          *)
(*   Answered         ... and that attempt had been answered upstream       *)
(*   FreshFlight      a caller that entered after a flight had delivered is *)
(*                    never served by that flight (forgotten on completion) *)
(*   CtxPrivate       a context error reaches only a caller whose own       *)
(*                    context ended                                         *)
(*   PrivateCopy      no two callers share any object of their responses,   *)
(*                    and scribbling over one leaves the others intact      *)
(*   SlotsBalanced    at quiescence every capacity pool is empty            *)
(*   Forgotten        ... and no finished call is left in the singleflight  *)
(*                    group (a later caller would join it and never be served)*)
(* An INVARIANT failing here = the property is false on a real execution.   *)
(***************************************************************************)
EXTENDS Integers, FiniteSets, Sequences, TLC, Json, IOUtils

TraceLog == ndJsonDeserialize(IOEnv.TRACE_FILE)

VARIABLES
  l,          \* next line
  open,       \* caller -> [n, k, doneAt] of its running invocation (as a set of records keyed by c)
  cancelled,  \* {<<c, n>>}: cancel lines seen
  tagKey,     \* {<<tag, key>>}
  answered,   \* tags the upstream answered with a response
  doneTags,   \* tags some caller already returned with
  viol        \* names of the predicates found false

mvars == <<l, open, cancelled, tagKey, answered, doneTags, viol>>

MInit == l = 1 /\ open = {} /\ cancelled = {} /\ tagKey = {} /\ answered = {} /\ doneTags = {} /\ viol = {}

Line == TraceLog[l]
Has(f) == f \in DOMAIN Line
OpenOf(c) == {r \in open : r.c = c}

Checks ==
  LET c == Line.c
      o == CHOOSE r \in OpenOf(c) : TRUE IN
  IF OpenOf(c) = {} THEN {"Protocol"}
  ELSE
    (IF Line.kind = "ok" /\ ~(\E p \in tagKey : p[1] = Line.tag /\ p[2] = o.k) THEN {"OwnQuestion"} ELSE {})
    \cup (IF Line.kind = "ok" /\ Line.tag \notin answered THEN {"Answered"} ELSE {})
    \cup (IF Line.kind = "ok" /\ Line.tag \in o.doneAt THEN {"FreshFlight"} ELSE {})
    \cup (IF Line.kind = "ctx" /\ <<c, Line.n>> \notin cancelled THEN {"CtxPrivate"} ELSE {})
    \cup (IF Line.kind = "nil" THEN {"OwnReply"} ELSE {})
    \cup (IF Has("own") /\ ~Line.own THEN {"OwnReply"} ELSE {})

MNext ==
  /\ l <= Len(TraceLog)
  /\ l' = l + 1
  /\ CASE Line.ev = "call" ->
            /\ open' = (open \ OpenOf(Line.c)) \cup {[c |-> Line.c, n |-> Line.n, k |-> Line.k, doneAt |-> doneTags]}
            /\ UNCHANGED <<cancelled, tagKey, answered, doneTags, viol>>
       [] Line.ev = "cancel" ->
            /\ cancelled' = cancelled \cup {<<Line.c, Line.n>>}
            /\ UNCHANGED <<open, tagKey, answered, doneTags, viol>>
       [] Line.ev = "upq" ->
            /\ tagKey' = tagKey \cup {<<Line.tag, Line.k>>}
            /\ UNCHANGED <<open, cancelled, answered, doneTags, viol>>
       [] Line.ev = "upr" ->
            /\ answered' = IF Line.o = "ok" THEN answered \cup {Line.tag} ELSE answered
            /\ UNCHANGED <<open, cancelled, tagKey, doneTags, viol>>
       [] Line.ev = "ret" ->
            /\ viol' = viol \cup Checks
            /\ doneTags' = IF Line.kind = "ok" THEN doneTags \cup {Line.tag} ELSE doneTags
            /\ open' = open \ OpenOf(Line.c)
            /\ UNCHANGED <<cancelled, tagKey, answered>>
       [] Line.ev = "end" ->
            /\ viol' = viol
                 \cup (IF Line.res # 0 \/ Line.mc # 0 \/ Line.zonesum # 0 \/ Line.zonemin # 0 \/ Line.zonemax # 0 THEN {"SlotsBalanced"} ELSE {})
                 \cup (IF Line.inflight # 0 THEN {"Forgotten"} ELSE {})
                 \cup (IF ~Line.copyok THEN {"PrivateCopy"} ELSE {})
                 \cup (IF open # {} THEN {"Protocol"} ELSE {})
            /\ UNCHANGED <<open, cancelled, tagKey, answered, doneTags>>
       [] Line.ev = "Reset" ->
            /\ open' = {} /\ cancelled' = {} /\ tagKey' = {} /\ answered' = {} /\ doneTags' = {}
            /\ UNCHANGED viol

MonitorSpec == MInit /\ [][MNext]_mvars

OwnQuestion == "OwnQuestion" \notin viol
OwnReply == "OwnReply" \notin viol
Answered == "Answered" \notin viol
FreshFlight == "FreshFlight" \notin viol
CtxPrivate == "CtxPrivate" \notin viol
PrivateCopy == "PrivateCopy" \notin viol
SlotsBalanced == "SlotsBalanced" \notin viol
Forgotten == "Forgotten" \notin viol
WellFormed == "Protocol" \notin viol

Consumed == TLCGet("stats").diameter - 1 = Len(TraceLog)
=============================================================================
