CONSTANTS
  Ticks = {1, 2, 3, 5}
  Horizon = 100000000
  RawTTLs = {0, 1, 3, 7, 100000}
  AuxSet <- AuxS
  Deltas = {0, 1, 3, 7}
  Floor = 5
  Cap = 86400
  EcsCap = 3
  CutMax = 600
  Keys <- KeysF
  Chain <- ChainN
  NegKey = "ng"
  ScopedKey = "sc"
  Routes = {"msg", "msgw", "wire"}
  Reqs = {1, 2}
  MaxLeases = 2
  Zones <- ZonesA
  Parent <- ParentA
  DTTLs = {7}
  Ceil = 43200
  ProvCap = 60
  MaxVer = 1
  MaxPubOps = 0
  PubInits <- PubA
  Res = {1}
INIT InitAnswer
NEXT NextASim
CHECK_DEADLOCK FALSE
