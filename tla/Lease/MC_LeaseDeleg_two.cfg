CONSTANTS
  Ticks = {1, 2, 5}
  Horizon = 100000
  RawTTLs = {7}
  AuxSet <- AuxNone
  Deltas = {1}
  Floor = 5
  Cap = 86400
  EcsCap = 3
  CutMax = 0
  Keys <- KeysNone
  Chain <- ChainNone
  NegKey = "ng"
  ScopedKey = "sc"
  Routes = {"msg"}
  Reqs = {1}
  MaxLeases = 1
  Zones <- ZonesQ
  Parent <- ParentQ
  DTTLs = {0, 1, 3, 7}
  Ceil = 43200
  ProvCap = 60
  MaxVer = 1
  MaxPubOps = 0
  PubInits <- PubInitsQ
  Res = {1, 2}
SPECIFICATION SpecDeleg
VIEW ViewD
INVARIANTS TypeOKD FollowsParent
PROPERTIES LeaseWithinGrant NoSelfExtension
CHECK_DEADLOCK FALSE
