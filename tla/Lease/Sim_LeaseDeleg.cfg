CONSTANTS
  Ticks = {1, 2, 3, 5}
  Horizon = 100000000
  RawTTLs = {0, 3, 7, 300}
  AuxSet <- AuxNone
  Deltas = {1}
  Floor = 5
  Cap = 86400
  EcsCap = 3
  CutMax = 0
  Keys <- KeysNone
  Chain <- ChainNone
  NegKey = "ng"
  ScopedKey = "sc"
  Routes = {"msg"}
  Reqs = {1}
  MaxLeases = 1
  Zones <- ZonesD
  Parent <- ParentD
  DTTLs = {0, 1, 3, 7, 50000}
  Ceil = 43200
  ProvCap = 60
  MaxVer = 4
  MaxPubOps = 4
  PubInits <- PubInitsD
  Res = {1, 2}
INIT InitDeleg
NEXT NextDSim
CHECK_DEADLOCK FALSE
