------------------------------- MODULE Lease -------------------------------
(***************************************************************************)
(* Lifetimes in sdns: one module, two property families (DESIGN.md 2.2).   *)
(*                                                                         *)
(*  ANSWER half (C04, MC_LeaseAnswer*.cfg, SpecAnswer):                    *)
(*    middleware/cache  CacheEntry{stored,ttl,cutUntil}, Store.            *)
(*    SetFromResponse*, ReplaceIfCurrent, GetWithContext, Cache.ServeDNS   *)
(*    hit ladder (exact entry on the Msg path, the byte path and the       *)
(*    wire-born path, both CNAME chases, RFC 8020 subtree cut, RFC 8198    *)
(*    denial proof), ResponseMeta's min-only forkable cut, prefetch CAS.   *)
(*    Delegation leases are abstract: an environment action hands in       *)
(*    arbitrary absolute deadlines (Lease).                                *)
(*                                                                         *)
(*  DELEGATION half (C08, MC_LeaseDeleg*.cfg, SpecDeleg):                  *)
(*    internal/authority.Cache SetUntil/Set/Get and the resolver's lease   *)
(*    arithmetic (processDelegation, searchCache seed, cached descent,     *)
(*    lookupV4Nss provisional entry) over a delegation tree whose parent   *)
(*    side truth changes under the resolver.  Answers are abstracted to    *)
(*    "learned through cut d".                                             *)
(*                                                                         *)
(* Each Spec leaves the other half's variables untouched, so neither       *)
(* state space contains the product.  Time is a Nat (seconds).  Records    *)
(* have one shape per kind ("none" is id/ver = 0) so values serialise.     *)
(*                                                                         *)
(* Deliberate deviations from the code (named here, accounted as drift by  *)
(* the replay): times are exact integers (the code floors a remaining      *)
(* duration that is always a few microseconds short, so it shows rem-1);   *)
(* an expired entry is removed by the first lookup that finds it           *)
(* (PositiveCache.Get CompareAndDelete) -- modelled; eviction by capacity  *)
(* is not modelled (C16 owns it).                                          *)
(***************************************************************************)
EXTENDS Integers, Sequences, FiniteSets, TLC

CONSTANTS
  \* ---- shared
  Ticks,        \* clock steps
  Horizon,      \* last instant explored
  \* ---- answer half
  RawTTLs,      \* TTLs upstream records carry
  AuxSet,       \* second TTL source of a response: seconds until the covering
                \* RRSIG expires (positive answers) / SOA minimum (negative);
                \* NoAux = absent
  Deltas,       \* a lease handed in by the environment ends at now + d
  Floor, Cap,   \* dnsutil.MinCacheTTL / MaxCacheTTL (5 s / 24 h)
  EcsCap,       \* CacheConfig.ECSMaxTTL for scoped entries (0 = off)
  CutMax,       \* TTL cap of subtree cuts and denial proofs (cfg.Expire, <= 3 h)
  Keys,         \* cache keys (question identities)
  Chain,        \* alias chain <<k1, ..., kn>>: ki is a CNAME to k(i+1), kn an address
  NegKey,       \* key answered negatively (NXDOMAIN/NODATA + SOA)
  ScopedKey,    \* key stored under an ECS scope (Store API only)
  Routes,       \* serving routes of Cache.ServeDNS: "msg", "msgw", "wire"
  Reqs,         \* client request slots (queries in flight)
  MaxLeases,    \* leases folded per request
  \* ---- delegation half
  Zones, Parent,  \* delegation tree: Parent[z] \in Zones \cup {"root"}
  DTTLs,        \* NS / DS TTLs a parent may publish
  Ceil,         \* authority maximumTTL (12 h)
  ProvCap,      \* lookupV4Nss provisional cap (1 min)
  MaxVer,       \* bound on the version of one zone's parent-side truth
  MaxPubOps,    \* bound on parent-side changes in one behaviour
  PubInits,     \* initial parent-side publications explored
  Res           \* resolver query slots

NoCut  == 1000000      \* "unbounded" deadline (time.Time{} in the code)
NoAux  == -1
NoDS   == -1

Min2(a, b) == IF a <= b THEN a ELSE b
Max2(a, b) == IF a >= b THEN a ELSE b

VARIABLES
  now,
  \* answer half
  ans,      \* [Keys -> Entry]            exact-answer store (positive cache)
  scut,     \* CutRec                     RFC 8020 subtree cut (one denied name)
  proof,    \* [{"soa","nsec"} -> CutRec] RFC 8198 proof RRsets of one zone
  req,      \* [Reqs -> ReqRec]           client queries in flight
  pf,       \* [Keys -> Nat]              prefetch claim: entry id captured (0 = none)
  nextId,   \* next stored-entry identity (pointer identity in the code)
  reply,    \* last observable outcome    (hidden by the VIEW)
  lastShown,\* [1..nextId-1 -> Int]       ghost: last TTL shown per entry id (hidden)
  \* delegation half
  pub,      \* [Zones -> PubRec]          what the parent side says now
  deleg,    \* [Zones -> DelegRec]        authority.Cache
  granted,  \* [Zones -> Nat]             ghost: latest lease end any referral for z carried
  rs,       \* [Res -> ResRec]            resolutions in flight
  dans,     \* [Zones -> DAns]            answers learned through a cut (abstract answer cache)
  dreply    \* last observable outcome of the delegation half (hidden)

avars == <<ans, scut, proof, req, pf, nextId, reply, lastShown>>
dvars == <<pub, deleg, granted, rs, dans, dreply>>
vars  == <<now, avars, dvars>>

(***************************************************************************)
(*                            ANSWER  HALF                                 *)
(***************************************************************************)
NoneE   == [id |-> 0, stored |-> 0, ttl |-> 0, cutUntil |-> 0, ver |-> 0, kind |-> "none"]
NoneC   == [id |-> 0, expires |-> 0]
NoPend  == [raw |-> -1, aux |-> NoAux, id |-> 0]
IdleReq == [st |-> "idle", q |-> "-", route |-> "-", k |-> 0, metas |-> <<>>,
            pend |-> <<>>, pieces |-> {}, leases |-> {}, nl |-> 0]
NoReply == [kind |-> "none"]

ChainSet == {Chain[i] : i \in 1..Len(Chain)}
Pos(q)   == CHOOSE i \in 1..Len(Chain) : Chain[i] = q
IsAlias(q) == q \in ChainSet /\ Pos(q) < Len(Chain)
KindOf(q) == IF q = NegKey THEN "neg" ELSE IF q = ScopedKey THEN "scoped" ELSE "pos"

(* the hops a query for q walks: the alias chain from q on -- except on the  *)
(* Store routes ("get" = Store.GetWithContext, "scoped" = LookupByKeyVerified *)
(* + ToMsg), which never chase                                              *)
PathOf(q, route) ==
  IF q \in ChainSet /\ route \notin {"get", "scoped"}
    THEN SubSeq(Chain, Pos(q), Len(Chain))
    ELSE <<q>>

(* dnsutil.CalculateCacheTTL + TTLManager.Calculate + the scoped cap of      *)
(* Store.setFromResponseWithKey: min over record TTLs, RRSIG time-to-expiry  *)
(* and (negative answers) the SOA minimum; floored at 5 s, capped at 24 h;   *)
(* a scoped entry is then capped at ECSMaxTTL (which may undercut the floor) *)
EffTTL(raw, aux, kind) ==
  LET base == IF aux = NoAux THEN raw ELSE Min2(raw, aux)
      cl   == IF base < Floor THEN Floor ELSE IF base > Cap THEN Cap ELSE base
  IN IF kind = "scoped" /\ EcsCap > 0 /\ cl > EcsCap THEN EcsCap ELSE cl

(* subtree cuts and proofs take NO floor (nxDomainCutCache.record,           *)
(* denialProofExpiry): min of every TTL source, the lease and the cap        *)
BareTTL(raw, aux, cut) ==
  LET b1 == IF aux = NoAux THEN raw ELSE Min2(raw, aux)
      b2 == Min2(b1, CutMax)
  IN IF cut = NoCut THEN b2 ELSE Min2(b2, cut - now)

NewEntry(id, raw, aux, cut, q) ==
  [id |-> id, stored |-> now, ttl |-> EffTTL(raw, aux, KindOf(q)), cutUntil |-> cut,
   ver |-> 0, kind |-> KindOf(q)]

(* CacheEntry.remaining: min(ttl - elapsed, cutUntil - now); the lease cut   *)
(* is enforced at read time and therefore overrides the floor               *)
Expiry(e) == Min2(e.stored + e.ttl, e.cutUntil)
LiveE(e)  == e.id # 0 /\ now < Expiry(e)
LiveC(c)  == c.id # 0 /\ now < c.expires

(* ------------------------------------------------------------------------ *)
(* One client query = QueryStart, then for every hop that is not live a      *)
(* downstream stage (Lease* then CacheWrite or NoAnswer).  Level l of the    *)
(* request owns meta l: level 1 is the chain's ResponseMeta, deeper levels   *)
(* are ForkCut children of the CNAME chase (Cache.internalExchange); a child *)
(* is folded into its parent only when its answer was used                   *)
(* (subQueryLineage.inherit).                                                *)
(* ------------------------------------------------------------------------ *)
(* ghost update: the TTL last shown for every piece just served             *)
Shown(pcs) == [i \in DOMAIN lastShown \cup {p.id : p \in pcs} |->
                 IF \E p \in pcs : p.id = i THEN (CHOOSE p \in pcs : p.id = i).shown
                 ELSE lastShown[i]]
LastShown(i) == IF i \in DOMAIN lastShown THEN lastShown[i] ELSE NoCut

RECURSIVE Adv(_)
Adv(rq) ==      \* look hop k up now; walk on while hops are live
  LET pth == PathOf(rq.q, rq.route)
      h   == pth[rq.k]
      e   == ans[h]
  IN IF LiveE(e)
       THEN LET p  == [key |-> h, id |-> e.id, shown |-> Expiry(e) - now,
                       exp |-> Expiry(e), lvl |-> rq.k]
                r1 == [rq EXCEPT !.pieces = @ \cup {p},
                                 !.metas[rq.k] = Min2(@, Expiry(e))]
            IN IF rq.k = Len(pth)
                 THEN [r1 EXCEPT !.st = "done"]
                 ELSE Adv([r1 EXCEPT !.k = @ + 1,
                                     !.metas = Append(@, NoCut),
                                     !.pend  = Append(@, NoPend)])
       ELSE [rq EXCEPT !.st = "down"]

(* a lookup that finds an expired entry removes it (PositiveCache.Get)       *)
Reap(a, h) == IF a[h].id # 0 /\ ~LiveE(a[h]) THEN [a EXCEPT ![h] = NoneE] ELSE a

(* Cache.additionalAnswer, outer loop: when the failed level is the third or  *)
(* deeper, the level above it still returned its alias, so the level two up   *)
(* asks for the final target itself once more -- in a fresh fork of ITS meta. *)
(* The downstream that did not answer does not answer the retry either, but   *)
(* the retry's cache lookup may hit an entry stored meanwhile: that piece      *)
(* binds levels k-2 and up, not the alias at level k-1 beside it (lvl = k-1). *)
ASSUME ChainShort == Len(Chain) <= 3      \* so a retried hop is always the terminal one
Retries(rq, failed) == failed /\ rq.k >= 3
RetryPiece(rq, failed, a) ==
  LET h == PathOf(rq.q, rq.route)[rq.k] IN
  IF Retries(rq, failed) /\ a[h].id # 0 /\ now < Expiry(a[h])
    THEN {[key |-> h, id |-> a[h].id, shown |-> Expiry(a[h]) - now, exp |-> Expiry(a[h]), lvl |-> rq.k - 1]}
    ELSE {}

(* the request-tree cut as seen from level l once the walk has ended at      *)
(* level m = rq.k: a failed deepest level is not inherited                   *)
RECURSIVE CutAt(_, _, _, _)
CutAt(rq, l, failed, rp) ==
  LET own == IF l = rq.k - 2 /\ rp # {} THEN Min2(rq.metas[l], (CHOOSE p \in rp : TRUE).exp)
             ELSE rq.metas[l]
  IN IF l = rq.k THEN own
     ELSE IF l + 1 = rq.k /\ failed THEN own
     ELSE Min2(own, CutAt(rq, l + 1, failed, rp))

Pending(rq, l, failed) == rq.pend[l].id # 0 /\ ~(l = rq.k /\ failed)

(* the walk ended: store what was resolved (deepest first -- WriteMsg chases *)
(* before it publishes), answer the client                                   *)
Finish(r, rq, failed, ansBase) ==
  LET pth  == PathOf(rq.q, rq.route)
      lvls == 1..rq.k
      rp   == RetryPiece(rq, failed, ansBase)
      newE(l) == NewEntry(rq.pend[l].id, rq.pend[l].raw, rq.pend[l].aux,
                          CutAt(rq, l, failed, rp), pth[l])
      effLeases == {L \in rq.leases : ~(failed /\ L.lvl = rq.k)}
  IN /\ ans' = [h \in Keys |->
                  IF \E l \in lvls : pth[l] = h /\ Pending(rq, l, failed)
                    THEN newE(CHOOSE l \in lvls : pth[l] = h /\ Pending(rq, l, failed))
                    ELSE IF Retries(rq, failed) /\ h = pth[rq.k] THEN Reap(ansBase, h)[h]
                    ELSE ansBase[h]]
     /\ req' = [req EXCEPT ![r] = IdleReq]
     /\ reply' = [kind |-> "reply", r |-> r, q |-> rq.q, route |-> rq.route,
                  answered |-> ~(rq.k = 1 /\ failed),
                  pieces |-> rq.pieces \cup rp,
                  stored |-> {[key |-> pth[l], id |-> rq.pend[l].id,
                               exp |-> Expiry(newE(l)), lvl |-> l] :
                              l \in {x \in lvls : Pending(rq, x, failed)}},
                  leases |-> effLeases,
                  rootcut |-> CutAt(rq, 1, failed, rp)]
     /\ lastShown' = Shown(rq.pieces \cup rp)


Start(r, q, route) ==
  /\ req[r].st = "idle"
  /\ \A o \in Reqs : o < r => req[o].st # "idle"             \* slots are interchangeable: take the lowest
  /\ \A o \in Reqs : req[o].st = "idle" \/ req[o].q # q      \* dedup: one leader per key
  /\ LET rq0 == [IdleReq EXCEPT !.q = q, !.route = route, !.k = 1,
                                !.metas = <<NoCut>>, !.pend = <<NoPend>>]
         rq1 == Adv(rq0)
         h   == PathOf(q, route)[rq1.k]
     IN IF rq1.st = "done"
          THEN Finish(r, rq1, FALSE, ans)
          ELSE IF route \in {"get", "scoped"}       \* Store lookups never go downstream
                 THEN Finish(r, rq1, TRUE, Reap(ans, h))
                 ELSE /\ req' = [req EXCEPT ![r] = rq1]
                      /\ ans' = Reap(ans, h)
                      /\ reply' = NoReply
                      /\ UNCHANGED lastShown
  /\ UNCHANGED <<now, scut, proof, pf, nextId, dvars>>

(* exact-entry hit ladder entries of Cache.ServeDNS, named after the route   *)
HitMsg(r, q, route) == q \in Keys \ {ScopedKey} /\ ~IsAlias(q) /\ route \in Routes \ {"wire"}
                       /\ Start(r, q, route)
HitWire(r, q)  == q \in Keys \ {ScopedKey} /\ "wire" \in Routes /\ Start(r, q, "wire")
Chase(r, q, route) == IsAlias(q) /\ route \in Routes \ {"wire"} /\ Start(r, q, route)
GetEntry(r, q) == q \in Keys \ {ScopedKey} /\ Start(r, q, "get")     \* Store.GetWithContext
HitScoped(r)   == ScopedKey \in Keys /\ Start(r, ScopedKey, "scoped")

(* the resolver folds a delegation lease into the request's meta (noteCut)   *)
Lease(r, d) ==
  /\ req[r].st = "down" /\ req[r].nl < MaxLeases
  /\ req' = [req EXCEPT ![r].metas[req[r].k] = Min2(@, now + d),
                        ![r].leases = @ \cup {[lvl |-> req[r].k, d |-> now + d]},
                        ![r].nl = @ + 1]
  /\ reply' = NoReply
  /\ UNCHANGED <<now, ans, scut, proof, pf, nextId, lastShown, dvars>>

(* downstream answers the hop being resolved (its own RRset: a CNAME for an  *)
(* alias, an address / a negative answer otherwise); cache.ResponseWriter.   *)
(* WriteMsg chases before it stores, so a non-terminal hop walks on          *)
CacheWrite(r, raw, aux) ==
  /\ req[r].st = "down"
  /\ LET rq  == req[r]
         pth == PathOf(rq.q, rq.route)
         rq1 == [rq EXCEPT !.pend[rq.k] = [raw |-> raw, aux |-> aux, id |-> nextId]]
     IN IF rq.k = Len(pth)
          THEN Finish(r, rq1, FALSE, ans)
          ELSE LET rq2 == Adv([rq1 EXCEPT !.k = @ + 1, !.metas = Append(@, NoCut),
                                          !.pend = Append(@, NoPend)])
                   h   == pth[rq2.k]
               IN IF rq2.st = "done"
                    THEN Finish(r, rq2, FALSE, ans)
                    ELSE /\ req' = [req EXCEPT ![r] = rq2]
                         /\ ans' = Reap(ans, h)
                         /\ reply' = NoReply
                         /\ UNCHANGED lastShown
  /\ nextId' = nextId + 1
  /\ UNCHANGED <<now, scut, proof, pf, dvars>>

(* downstream fails to answer the hop: the sub-query contributes nothing     *)
NoAnswer(r) ==
  /\ req[r].st = "down"
  /\ Finish(r, req[r], TRUE, ans)
  /\ UNCHANGED <<now, scut, proof, pf, nextId, dvars>>

(* Resolver.subQuery: Store.SetFromResponseWithCut (and ...Scoped) directly  *)
SubQueryWrite(q, raw, aux, d) ==
  /\ q \in Keys
  /\ ans' = [ans EXCEPT ![q] = NewEntry(nextId, raw, aux,
                                        IF d = NoAux THEN NoCut ELSE now + d, q)]
  /\ nextId' = nextId + 1
  /\ reply' = [kind |-> "write", q |-> q, id |-> nextId]
  /\ UNCHANGED <<now, scut, proof, req, pf, lastShown, dvars>>

(* ---- RFC 8020 subtree cut and RFC 8198 proof RRsets: timed entries ------ *)
CutWrite(raw, aux, d) ==
  /\ CutMax > 0
  /\ LET t == BareTTL(raw, aux, IF d = NoAux THEN NoCut ELSE now + d)
     IN scut' = IF t > 0 THEN [id |-> nextId, expires |-> now + t] ELSE scut
  /\ nextId' = nextId + 1
  /\ reply' = [kind |-> "write", q |-> "cut", id |-> nextId]
  /\ UNCHANGED <<now, ans, proof, req, pf, lastShown, dvars>>

ProofWrite(rawS, rawN, d) ==
  /\ CutMax > 0
  /\ LET c  == IF d = NoAux THEN NoCut ELSE now + d
         tS == BareTTL(rawS, NoAux, c)
         tN == BareTTL(rawN, NoAux, c)
     IN \* extract(): one unusable RRset rejects the whole bundle
        proof' = IF tS > 0 /\ tN > 0
                   THEN [p \in {"soa", "nsec"} |->
                          IF p = "soa" THEN [id |-> nextId, expires |-> now + tS]
                                       ELSE [id |-> nextId + 1, expires |-> now + tN]]
                   ELSE proof
  /\ nextId' = nextId + 2
  /\ reply' = [kind |-> "write", q |-> "proof", id |-> nextId]
  /\ UNCHANGED <<now, ans, scut, req, pf, lastShown, dvars>>

Synth(kind, route, pcs, cutv) ==
  /\ reply' = [kind |-> "reply", r |-> 0, q |-> kind, route |-> route,
               answered |-> pcs # {}, pieces |-> pcs, stored |-> {}, leases |-> {},
               rootcut |-> cutv]
  /\ lastShown' = Shown(pcs)

(* a name below the denied name, no exact entry: handleNXDomainCutHit /      *)
(* serveCutHitFromWire / GetWithContext; an expired cut is removed           *)
HitCut(route) ==
  /\ CutMax > 0 /\ route \in Routes \cup {"get"}
  /\ IF LiveC(scut)
       THEN /\ Synth("cut", route, {[key |-> "cut", id |-> scut.id, shown |-> scut.expires - now,
                                    exp |-> scut.expires, lvl |-> 1]}, scut.expires)
            /\ UNCHANGED scut
       ELSE /\ Synth("cut", route, {}, NoCut)
            /\ scut' = NoneC
  /\ UNCHANGED <<now, ans, proof, req, pf, nextId, dvars>>

(* a name the NSEC covers: the synthesised denial lives while BOTH RRsets    *)
(* live and shows the smaller remaining lifetime on every record             *)
HitDenial(route) ==
  /\ CutMax > 0 /\ route \in (Routes \ {"wire"}) \cup {"get"}
  /\ IF LiveC(proof["soa"]) /\ LiveC(proof["nsec"])
       THEN LET ex == Min2(proof["soa"].expires, proof["nsec"].expires)
            IN Synth("denial", route,
                     {[key |-> p, id |-> proof[p].id, shown |-> ex - now,
                       exp |-> proof[p].expires, lvl |-> 1] : p \in {"soa", "nsec"}}, ex)
       ELSE Synth("denial", route, {}, NoCut)
  /\ UNCHANGED <<now, ans, scut, proof, req, pf, nextId, dvars>>

(* ---- background refresh: claim = the entry pointer that was hit --------- *)
PrefetchStart(q) ==
  /\ q \in Keys \ {ScopedKey} /\ pf[q] = 0
  /\ LiveE(ans[q])                      \* Store.Lookup returns live entries only
  /\ pf' = [pf EXCEPT ![q] = ans[q].id]
  /\ reply' = [kind |-> "claim", q |-> q, id |-> ans[q].id]
  /\ UNCHANGED <<now, ans, scut, proof, req, nextId, lastShown, dvars>>

(* Store.ReplaceIfCurrent: CompareAndSwap on the stored pointer -- liveness  *)
(* of the holder is not consulted, only identity                             *)
PrefetchComplete(q, raw, aux, d) ==
  /\ pf[q] # 0
  /\ LET win == ans[q].id = pf[q]
     IN /\ ans' = IF win
                    THEN [ans EXCEPT ![q] = NewEntry(nextId, raw, aux,
                                                     IF d = NoAux THEN NoCut ELSE now + d, q)]
                    ELSE ans
        /\ reply' = [kind |-> "pfdone", q |-> q, id |-> nextId, swapped |-> win,
                     claimed |-> pf[q], holder |-> ans[q].id]
  /\ pf' = [pf EXCEPT ![q] = 0]
  /\ nextId' = nextId + 1
  /\ UNCHANGED <<now, scut, proof, req, lastShown, dvars>>

(* Cache.Purge: exact entries of the question, covering cuts, the zone's     *)
(* denial RRsets (its SOA is kept)                                           *)
Purge(q) ==
  /\ q \in Keys \cup {"cut", "proof"} /\ (q \in Keys \/ CutMax > 0)
  /\ ans'   = IF q \in Keys THEN [ans EXCEPT ![q] = NoneE] ELSE ans
  /\ scut'  = IF q = "cut" THEN NoneC ELSE scut
  /\ proof' = IF q = "proof" THEN [proof EXCEPT !["nsec"] = NoneC] ELSE proof
  /\ reply' = [kind |-> "purge", q |-> q]
  /\ UNCHANGED <<now, req, pf, nextId, lastShown, dvars>>

(* the clock moves only while no request in flight holds TTLs it has         *)
(* already computed from cached pieces                                       *)
TickA(d) ==
  /\ now + d <= Horizon
  /\ \A r \in Reqs : req[r].pieces = {}
  /\ now' = now + d
  /\ reply' = NoReply
  /\ UNCHANGED <<ans, scut, proof, req, pf, nextId, lastShown, dvars>>

InitA ==
  /\ ans = [q \in Keys |-> NoneE]
  /\ scut = NoneC
  /\ proof = [p \in {"soa", "nsec"} |-> NoneC]
  /\ req = [r \in Reqs |-> IdleReq]
  /\ pf = [q \in Keys |-> 0]
  /\ nextId = 1
  /\ reply = NoReply
  /\ lastShown = [i \in {} |-> NoCut]

AuxD == AuxSet          \* lease parameter of direct writes: NoAux = unbounded
NextA ==
  \/ \E r \in Reqs, q \in Keys, rt \in Routes : HitMsg(r, q, rt) \/ Chase(r, q, rt)
  \/ \E r \in Reqs, q \in Keys : HitWire(r, q) \/ GetEntry(r, q)
  \/ \E r \in Reqs : HitScoped(r) \/ NoAnswer(r)
  \/ \E r \in Reqs, d \in Deltas : Lease(r, d)
  \/ \E r \in Reqs, raw \in RawTTLs, aux \in AuxSet : CacheWrite(r, raw, aux)
  \/ \E q \in Keys, raw \in RawTTLs, aux \in AuxSet, d \in Deltas \cup {NoAux} :
        SubQueryWrite(q, raw, aux, d) \/ PrefetchComplete(q, raw, aux, d)
  \/ \E raw \in RawTTLs, aux \in AuxSet, d \in Deltas \cup {NoAux} : CutWrite(raw, aux, d)
  \/ \E rs1 \in RawTTLs, rn \in RawTTLs, d \in Deltas \cup {NoAux} : ProofWrite(rs1, rn, d)
  \/ \E rt \in Routes \cup {"get"} : HitCut(rt) \/ HitDenial(rt)
  \/ \E q \in Keys : PrefetchStart(q)
  \/ \E q \in Keys \cup {"cut", "proof"} : Purge(q)
  \/ \E d \in Ticks : TickA(d)

(* Next-state relation for -simulate: TLC picks uniformly among successor    *)
(* states, so the parameter product of the write actions would drown the     *)
(* reads.  The S-variants are enabled only now and then (a state-level       *)
(* random guard, re-drawn for every instance at every step); being named     *)
(* operators they keep their arguments in the behaviour's action labels.     *)
Rare(n) == RandomElement({i \in 1..n : now = now}) = 1
LeaseS(r, d) == Rare(2) /\ Lease(r, d)
CacheWriteS(r, raw, aux) == Rare(6) /\ CacheWrite(r, raw, aux)
SubQueryWriteS(q, raw, aux, d) == Rare(40) /\ SubQueryWrite(q, raw, aux, d)
PrefetchCompleteS(q, raw, aux, d) == Rare(12) /\ PrefetchComplete(q, raw, aux, d)
CutWriteS(raw, aux, d) == Rare(30) /\ CutWrite(raw, aux, d)
ProofWriteS(rawS, rawN, d) == Rare(40) /\ ProofWrite(rawS, rawN, d)
PurgeS(q) == Rare(3) /\ Purge(q)
TickBigS(d) == Rare(4) /\ TickA(d)          \* a day passes
NextASim ==
  \/ \E r \in Reqs, q \in Keys, rt \in Routes : HitMsg(r, q, rt) \/ Chase(r, q, rt)
  \/ \E r \in Reqs, q \in Keys : HitWire(r, q) \/ GetEntry(r, q)
  \/ \E r \in Reqs : HitScoped(r) \/ NoAnswer(r)
  \/ \E r \in Reqs, d \in Deltas : LeaseS(r, d)
  \/ \E r \in Reqs, raw \in RawTTLs, aux \in AuxSet : CacheWriteS(r, raw, aux)
  \/ \E q \in Keys, raw \in RawTTLs, aux \in AuxSet, d \in Deltas \cup {NoAux} :
        SubQueryWriteS(q, raw, aux, d) \/ PrefetchCompleteS(q, raw, aux, d)
  \/ \E raw \in RawTTLs, aux \in AuxSet, d \in Deltas \cup {NoAux} : CutWriteS(raw, aux, d)
  \/ \E rs1 \in RawTTLs, rn \in RawTTLs, d \in Deltas \cup {NoAux} : ProofWriteS(rs1, rn, d)
  \/ \E rt \in Routes \cup {"get"} : HitCut(rt) \/ HitDenial(rt)
  \/ \E q \in Keys : PrefetchStart(q)
  \/ \E q \in Keys \cup {"cut", "proof"} : PurgeS(q)
  \/ \E d \in Ticks : TickA(d)
  \/ \E d \in {Cap - 10} : TickBigS(d)

(* ------------------------------ properties ------------------------------ *)
TypeOKA ==
  /\ now \in 0..Horizon
  /\ \A q \in Keys : ans[q].id \in 0..(nextId - 1) /\ ans[q].ttl <= Cap
  /\ \A q \in Keys : ans[q].id # 0 =>
        (ans[q].ttl >= Floor \/ (ans[q].kind = "scoped" /\ ans[q].ttl = EcsCap))
  /\ \A r \in Reqs : req[r].st \in {"idle", "down"}
                     /\ Len(req[r].metas) = req[r].k /\ Len(req[r].pend) = req[r].k

IsReply(x) == x.kind = "reply"

(* nothing is served past its lifetime                                       *)
ServedLiveStep == IsReply(reply') => \A p \in reply'.pieces : now' < p.exp
(* the TTL shown never exceeds the time remaining (of the record's own piece)*)
TTLShownStep   == IsReply(reply') => \A p \in reply'.pieces : p.shown <= p.exp - now' /\ p.shown >= 0
(* ... and never grows between hits on the same stored entry                 *)
TTLMonotoneStep == IsReply(reply') => \A p \in reply'.pieces : p.shown <= LastShown(p.id)
(* ComposedMin (a) and (b) are ServedLive / TTLShown quantified over every   *)
(* piece of the reply; (c): whatever the request re-cached lives no longer   *)
(* than any cached piece or lease beneath it in the request tree, and the    *)
(* root of the tree is bounded by all of them                                *)
ComposedMinStep ==
  IsReply(reply') =>
    /\ \A s \in reply'.stored :
         /\ \A p \in reply'.pieces : p.lvl > s.lvl => s.exp <= p.exp
         /\ \A L \in reply'.leases : L.lvl >= s.lvl => s.exp <= L.d
    /\ \A p \in reply'.pieces : reply'.rootcut <= p.exp
    /\ \A L \in reply'.leases : reply'.rootcut <= L.d
(* a refresh that completes after newer data was stored never overwrites it  *)
LateWriteLosesStep ==
  reply'.kind = "pfdone" => (reply'.swapped => reply'.holder = reply'.claimed)
                            /\ (~reply'.swapped => ans' = ans)

ServedLive     == [][ServedLiveStep]_vars
TTLShown       == [][TTLShownStep]_vars
TTLMonotone    == [][TTLMonotoneStep]_vars
ComposedMin    == [][ComposedMinStep]_vars
LateWriteLoses == [][LateWriteLosesStep]_vars

(* the algebra both halves rely on: ResponseMeta.BoundCutFor is a min-only   *)
(* fold; forking a child and inheriting it equals folding directly           *)
FoldVals == 0..12 \cup {NoCut}
ASSUME FoldAlgebra ==
  /\ \A a, b \in FoldVals : Min2(a, b) = Min2(b, a) /\ Min2(a, a) = a /\ Min2(a, NoCut) = a
  /\ \A a, b, c \in {0, 1, 3, 7, NoCut} :
        /\ Min2(a, Min2(b, c)) = Min2(Min2(a, b), c)
        /\ Min2(a, Min2(NoCut, Min2(b, c))) = Min2(Min2(a, b), c)   \* fork, fold, inherit

(* The VIEW: every absolute instant relative to now (the spec is invariant   *)
(* under time translation), entry identities reduced to "is the claimed one",*)
(* expired-but-present entries collapsed; now, ids and ghosts are hidden.    *)
Rel(t)  == IF t = NoCut THEN NoCut ELSE IF t <= now THEN 0 ELSE t - now
RelE(e) == IF e.id = 0 THEN -1 ELSE Rel(Expiry(e))
RelC(c) == IF LiveC(c) THEN c.expires - now ELSE -1
RelReq(rq) == [st |-> rq.st, q |-> rq.q, route |-> rq.route, k |-> rq.k, nl |-> rq.nl,
               metas |-> [i \in DOMAIN rq.metas |-> Rel(rq.metas[i])],
               pend  |-> [i \in DOMAIN rq.pend |-> [raw |-> rq.pend[i].raw, aux |-> rq.pend[i].aux]],
               pieces |-> {[key |-> p.key, lvl |-> p.lvl, shown |-> p.shown] : p \in rq.pieces},
               leases |-> {[lvl |-> L.lvl, d |-> Rel(L.d)] : L \in rq.leases}]
ViewA == <<[q \in Keys |-> RelE(ans[q])], RelC(scut), [p \in DOMAIN proof |-> RelC(proof[p])],
           [r \in Reqs |-> RelReq(req[r])],
           [q \in Keys |-> IF pf[q] = 0 THEN 0 ELSE IF ans[q].id = pf[q] THEN 1 ELSE 2]>>

(***************************************************************************)
(*                          DELEGATION  HALF                               *)
(***************************************************************************)
NoneD   == [expires |-> 0, observedAt |-> 0, ins |-> 0, grant |-> 0, anc |-> 0,
            ver |-> 0, prov |-> FALSE]
NoObs   == [e |-> "-", t |-> 0, ns |-> 0, ds |-> NoDS, ver |-> 0]
IdleRes == [st |-> "idle", z |-> "-", at |-> "-", cut |-> NoCut, obs |-> NoObs,
            ins |-> FALSE, np |-> 0]
NoneA   == [id |-> 0, stored |-> 0, ttl |-> 0, cutUntil |-> 0, neg |-> FALSE, via |-> "-"]
NoDReply == [kind |-> "none"]

RECURSIVE PathTo(_)
PathTo(z) == IF z = "root" THEN <<>> ELSE Append(PathTo(Parent[z]), z)   \* top first
PathSet(z) == {PathTo(z)[i] : i \in 1..Len(PathTo(z))}

(* authority.Cache.Get: an expired delegation is invisible                   *)
Visible(e) == deleg[e].ver # 0 /\ now < deleg[e].expires

(* lease a referral grants, measured from its observation                    *)
LeaseOf(t, ns, ds) == t + (IF ds = NoDS THEN ns ELSE Min2(ns, ds))

(* authority.Cache.SetUntil: skip a past deadline, clamp at now + 12 h       *)
SetUntil(e, deadline, t, grant, anc, ver, prov) ==
  IF deadline > now
    THEN [deleg EXCEPT ![e] = [expires |-> Min2(deadline, now + Ceil), observedAt |-> t,
                               ins |-> now, grant |-> grant, anc |-> anc, ver |-> ver,
                               prov |-> prov]]
    ELSE deleg

(* ---- the parent side changes its mind (every change is a new version) --- *)
RECURSIVE SumVer(_)
SumVer(S) == IF S = {} THEN 0 ELSE LET z == CHOOSE x \in S : TRUE IN (pub[z].ver - 1) + SumVer(S \ {z})
MayChange(e) == pub[e].ver < MaxVer /\ SumVer(Zones) < MaxPubOps

ParentWithdraw(e) ==
  /\ pub[e].present /\ MayChange(e)
  /\ pub' = [pub EXCEPT ![e].present = FALSE, ![e].ver = @ + 1]
  /\ dreply' = [kind |-> "parent", e |-> e]
  /\ UNCHANGED <<now, deleg, granted, rs, dans, avars>>

ParentRepoint(e) ==
  /\ MayChange(e)
  /\ pub' = [pub EXCEPT ![e].present = TRUE, ![e].ver = @ + 1]
  /\ dreply' = [kind |-> "parent", e |-> e]
  /\ UNCHANGED <<now, deleg, granted, rs, dans, avars>>

ParentRetime(e, ns, ds) ==
  /\ pub[e].present /\ (pub[e].ns # ns \/ pub[e].ds # ds) /\ MayChange(e)
  /\ pub' = [pub EXCEPT ![e].ns = ns, ![e].ds = ds, ![e].ver = @ + 1]
  /\ dreply' = [kind |-> "parent", e |-> e]
  /\ UNCHANGED <<now, deleg, granted, rs, dans, avars>>

(* ---- one resolution = many steps ---------------------------------------- *)
(* resolve(): searchCache finds the deepest visible delegation on the path;  *)
(* its deadline seeds cutDeadline (minCut) and the request's meta (noteCut)  *)
SeedFromDelegCache(r, z) ==
  /\ rs[r].st = "idle"
  /\ LET vis == {i \in 1..Len(PathTo(z)) : Visible(PathTo(z)[i])}
         top == IF vis = {} THEN 0 ELSE CHOOSE i \in vis : \A j \in vis : j <= i
         at  == IF top = 0 THEN "root" ELSE PathTo(z)[top]
     IN /\ rs' = [rs EXCEPT ![r] = [IdleRes EXCEPT !.st = "at", !.z = z, !.at = at,
                                     !.cut = IF top = 0 THEN NoCut ELSE deleg[at].expires]]
        /\ dreply' = [kind |-> "seed", r |-> r, z |-> z, at |-> at,
                      cut |-> IF top = 0 THEN NoCut ELSE deleg[at].expires]
  /\ UNCHANGED <<now, pub, deleg, granted, dans, avars>>

NextHop(r) == LET p == PathTo(rs[r].z)
                  i == IF rs[r].at = "root" THEN 0 ELSE CHOOSE j \in 1..Len(p) : p[j] = rs[r].at
              IN p[i + 1]

(* ask the servers of `at` (alive whether or not `at` itself is still        *)
(* delegated) about the next zone: referral per the parent-side truth, else  *)
(* a name error learned through the current cut                              *)
AskZone(r) ==
  /\ rs[r].st = "at" /\ rs[r].at # rs[r].z
  /\ LET e == NextHop(r) IN
     IF pub[e].present
       THEN /\ rs' = [rs EXCEPT ![r].st = "observed",
                                ![r].obs = [e |-> e, t |-> now, ns |-> pub[e].ns,
                                            ds |-> pub[e].ds, ver |-> pub[e].ver]]
            /\ granted' = [granted EXCEPT ![e] = Max2(@, LeaseOf(now, pub[e].ns, pub[e].ds))]
            /\ dreply' = [kind |-> "referral", r |-> r, e |-> e]
            /\ UNCHANGED dans
       ELSE /\ dans' = [dans EXCEPT ![rs[r].z] = [id |-> 1, stored |-> now, ttl |-> Floor,
                                                  cutUntil |-> rs[r].cut, neg |-> TRUE,
                                                  via |-> rs[r].at]]
            /\ rs' = [rs EXCEPT ![r] = IdleRes]
            /\ dreply' = [kind |-> "nxdomain", r |-> r, e |-> e]
            /\ UNCHANGED granted
  /\ UNCHANGED <<now, pub, deleg, avars>>

(* a child answers with a referral to itself / a shallower or unrelated      *)
(* zone: validReferral is false, nothing is inserted, the resolution ends    *)
SelfReferral(r) ==
  /\ rs[r].st = "at" /\ rs[r].at # "root"
  /\ rs' = [rs EXCEPT ![r] = IdleRes]
  /\ dreply' = [kind |-> "selfref", r |-> r, e |-> rs[r].at]
  /\ UNCHANGED <<now, pub, deleg, granted, dans, avars>>

ChildDeadline(r) == Min2(rs[r].cut, LeaseOf(rs[r].obs.t, rs[r].obs.ns, rs[r].obs.ds))

(* processDelegation after validation: a visible cached delegation is used   *)
(* instead of the referral, keeping the shorter of the two deadlines         *)
DescendCached(r) ==
  /\ rs[r].st = "observed" /\ ~rs[r].ins /\ Visible(rs[r].obs.e)
  /\ LET e == rs[r].obs.e IN
     /\ rs' = [rs EXCEPT ![r].st = "at", ![r].at = e, ![r].obs = NoObs,
                         ![r].cut = Min2(ChildDeadline(r), deleg[e].expires)]
     /\ dreply' = [kind |-> "descend", r |-> r, e |-> e,
                   cut |-> Min2(ChildDeadline(r), deleg[e].expires)]
  /\ UNCHANGED <<now, pub, deleg, granted, dans, avars>>

(* lookupV4Nss: a provisional entry while NS addresses are looked up,        *)
(* bounded by the inherited cut and one minute                               *)
ProvisionalInsert(r) ==
  /\ rs[r].st = "observed" /\ (rs[r].ins \/ ~Visible(rs[r].obs.e)) /\ rs[r].np < 1
  /\ LET o == rs[r].obs
         cd == ChildDeadline(r) IN
     /\ deleg' = SetUntil(o.e, Min2(cd, now + ProvCap), o.t,
                          LeaseOf(o.t, o.ns, o.ds), rs[r].cut, o.ver, TRUE)
     /\ dreply' = [kind |-> "insert", r |-> r, e |-> o.e, deadline |-> Min2(cd, now + ProvCap)]
  /\ rs' = [rs EXCEPT ![r].ins = TRUE, ![r].np = @ + 1]
  /\ UNCHANGED <<now, pub, granted, dans, avars>>

(* the delegation is cached with the absolute, inherited deadline            *)
(* (how = "until": SetUntil verbatim; "dur": the legacy Set(ttl) with        *)
(* ttl = deadline - now computed at the same instant)                        *)
InsertDeleg(r, how) ==
  /\ rs[r].st = "observed" /\ (rs[r].ins \/ ~Visible(rs[r].obs.e))
  /\ how \in {"until", "dur"}
  /\ LET o == rs[r].obs
         cd == ChildDeadline(r) IN
     /\ deleg' = SetUntil(o.e, cd, o.t, LeaseOf(o.t, o.ns, o.ds), rs[r].cut, o.ver, FALSE)
     /\ rs' = [rs EXCEPT ![r].st = "at", ![r].at = o.e, ![r].obs = NoObs, ![r].cut = cd,
                         ![r].ins = FALSE, ![r].np = 0]
     /\ dreply' = [kind |-> "insert", r |-> r, e |-> o.e, deadline |-> cd]
  /\ UNCHANGED <<now, pub, granted, dans, avars>>

(* the leaf answers; the answer is cached under the request's cut            *)
AnswerFromLeaf(r, ttl) ==
  /\ rs[r].st = "at" /\ rs[r].at = rs[r].z
  /\ dans' = [dans EXCEPT ![rs[r].z] = [id |-> 1, stored |-> now,
                                        ttl |-> IF ttl < Floor THEN Floor ELSE ttl,
                                        cutUntil |-> rs[r].cut, neg |-> FALSE,
                                        via |-> rs[r].z]]
  /\ rs' = [rs EXCEPT ![r] = IdleRes]
  /\ dreply' = [kind |-> "answer", r |-> r, z |-> rs[r].z, cut |-> rs[r].cut]
  /\ UNCHANGED <<now, pub, deleg, granted, avars>>

LiveA(a) == a.id # 0 /\ now < Min2(a.stored + a.ttl, a.cutUntil)

ServeAnswer(z) ==
  /\ dreply' = [kind |-> "serve", z |-> z, hit |-> LiveA(dans[z]),
                shown |-> IF LiveA(dans[z])
                            THEN Min2(dans[z].stored + dans[z].ttl, dans[z].cutUntil) - now ELSE 0]
  /\ UNCHANGED <<now, pub, deleg, granted, rs, dans, avars>>

(* the clock may move between any two steps of a resolution -- in            *)
(* particular between the observation of a referral and its insertion        *)
TickD(d) ==
  /\ now + d <= Horizon
  /\ now' = now + d
  /\ dreply' = NoDReply
  /\ UNCHANGED <<pub, deleg, granted, rs, dans, avars>>

InitD(p0) ==
  /\ pub = p0
  /\ deleg = [z \in Zones |-> NoneD]
  /\ granted = [z \in Zones |-> 0]
  /\ rs = [r \in Res |-> IdleRes]
  /\ dans = [z \in Zones |-> NoneA]
  /\ dreply = NoDReply

NextD ==
  \/ \E e \in Zones : ParentWithdraw(e) \/ ParentRepoint(e)
  \/ \E e \in Zones, ns \in DTTLs, ds \in DTTLs \cup {NoDS} : ParentRetime(e, ns, ds)
  \/ \E r \in Res, z \in Zones : SeedFromDelegCache(r, z)
  \/ \E r \in Res : AskZone(r) \/ SelfReferral(r) \/ DescendCached(r) \/ ProvisionalInsert(r)
  \/ \E r \in Res, how \in {"until", "dur"} : InsertDeleg(r, how)
  \/ \E r \in Res, t \in RawTTLs : AnswerFromLeaf(r, t)
  \/ \E z \in Zones : ServeAnswer(z)
  \/ \E d \in Ticks : TickD(d)

ParentWithdrawS(e) == Rare(6) /\ ParentWithdraw(e)
SelfReferralS(r) == Rare(5) /\ SelfReferral(r)
TickDS(d) == Rare(3) /\ TickD(d)
ParentRepointS(e) == Rare(3) /\ ParentRepoint(e)
ParentRetimeS(e, ns, ds) == Rare(40) /\ ParentRetime(e, ns, ds)
ServeAnswerS(z) == Rare(2) /\ ServeAnswer(z)
TickBigDS(d) == Rare(4) /\ TickD(d)         \* half a day passes
NextDSim ==
  \/ \E e \in Zones : ParentWithdrawS(e) \/ ParentRepointS(e)
  \/ \E e \in Zones, ns \in DTTLs, ds \in DTTLs \cup {NoDS} : ParentRetimeS(e, ns, ds)
  \/ \E r \in Res, z \in Zones : SeedFromDelegCache(r, z)
  \/ \E r \in Res : AskZone(r) \/ SelfReferralS(r) \/ DescendCached(r) \/ ProvisionalInsert(r)
  \/ \E r \in Res, how \in {"until", "dur"} : InsertDeleg(r, how)
  \/ \E r \in Res, t \in RawTTLs : AnswerFromLeaf(r, t)
  \/ \E z \in Zones : ServeAnswerS(z)
  \/ \E d \in Ticks : TickDS(d)
  \/ \E d \in {Ceil - 200} : TickBigDS(d)

(* ------------------------------ properties ------------------------------ *)
TypeOKD ==
  /\ now \in 0..Horizon
  /\ \A z \in Zones : deleg[z].ver \in 0..MaxVer /\ pub[z].ver \in 1..MaxVer
  /\ \A r \in Res : rs[r].st \in {"idle", "at", "observed"}

(* a stored lease never exceeds what the parent granted at the observation,  *)
(* any shallower lease on the path at insertion, or the 12 h ceiling         *)
(* (measured, as the code does, from the insertion instant -- DESIGN 9)      *)
WithinGrant(d) ==
     /\ d.expires <= d.grant
     /\ d.expires <= d.anc
     /\ d.expires <= d.ins + Ceil
     /\ d.observedAt <= d.ins
LeaseWithinGrantStep == \A e \in Zones : (deleg'[e] # deleg[e] /\ deleg'[e].ver # 0) => WithinGrant(deleg'[e])
LeaseWithinGrant == [][LeaseWithinGrantStep]_vars

(* a lease for an unchanged observation never grows (the provisional entry   *)
(* of lookupV4Nss is the same observation capped at one minute from each NS  *)
(* lookup, always inside the grant: replacing or completing it is not an     *)
(* extension); a non-progressing referral never inserts                      *)
NoSelfExtensionStep ==
  /\ \A e \in Zones :
       (deleg[e].ver # 0 /\ deleg'[e].ver = deleg[e].ver
        /\ deleg'[e].observedAt = deleg[e].observedAt /\ ~deleg[e].prov /\ ~deleg'[e].prov
        /\ deleg'[e].anc = deleg[e].anc)
         => (deleg'[e].expires <= deleg[e].expires \/ deleg'[e].expires = deleg'[e].ins + Ceil
             \/ deleg[e].expires = deleg[e].ins + Ceil)   \* the 12 h clamp is anchored at insertion (DESIGN 9)
  /\ dreply'.kind = "selfref" => deleg' = deleg
NoSelfExtension == [][NoSelfExtensionStep]_vars

(* whatever the resolver still uses follows the parent: a delegation is      *)
(* visible, and an answer learned through it servable, only before the end   *)
(* of the latest lease the parent side handed out for every zone on the path *)
(* -- once the parent withdraws, no new grant appears, so the old one ends   *)
FollowsParent ==
  /\ \A e \in Zones : Visible(e) => \A a \in PathSet(e) : now < granted[a]
  /\ \A z \in Zones : LiveA(dans[z]) =>
        \A a \in PathSet(dans[z].via) : dans[z].cutUntil <= granted[a]

RelD(d) == IF d.ver = 0 \/ d.expires <= now THEN [rem |-> 0, ver |-> 0, prov |-> FALSE]
           ELSE [rem |-> d.expires - now, ver |-> d.ver, prov |-> d.prov]
RelRes(x) == [st |-> x.st, z |-> x.z, at |-> x.at, cut |-> Rel(x.cut), ins |-> x.ins, np |-> x.np,
              obs |-> [e |-> x.obs.e, ver |-> x.obs.ver,
                       lease |-> IF x.obs.e = "-" THEN 0 ELSE Rel(LeaseOf(x.obs.t, x.obs.ns, x.obs.ds))]]
RelA(a) == IF LiveA(a) THEN [rem |-> Min2(a.stored + a.ttl, a.cutUntil) - now, cut |-> Rel(a.cutUntil), via |-> a.via]
           ELSE [rem |-> 0, cut |-> 0, via |-> "-"]
ViewD == <<pub, [z \in Zones |-> RelD(deleg[z])], [z \in Zones |-> Rel(granted[z])],
           [r \in Res |-> RelRes(rs[r])], [z \in Zones |-> RelA(dans[z])]>>

(***************************************************************************)
InitAnswer == now = 0 /\ InitA /\ InitD(CHOOSE p0 \in PubInits : TRUE)
InitDeleg  == now = 0 /\ InitA /\ \E p0 \in PubInits : InitD(p0)
SpecAnswer == InitAnswer /\ [][NextA]_vars
SpecDeleg  == InitDeleg /\ [][NextD]_vars
=============================================================================
