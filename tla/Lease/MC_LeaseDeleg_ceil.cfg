CONSTANTS
  Ticks = {1, 2, 5}
  Horizon = 100000
  RawTTLs = {7}
  AuxSet <- AuxNone
  Deltas = {1}
  Floor = 5
  Cap = 86400
  EcsCap = 3
  CutMax = 0
  Keys <- KeysNone
  Chain <- ChainNone
  NegKey = "ng"
  ScopedKey = "sc"
  Routes = {"msg"}
  Reqs = {1}
  MaxLeases = 1
  Zones <- ZonesOne
  Parent <- ParentOne
  DTTLs = {3, 7}
  Ceil = 4
  ProvCap = 2
  MaxVer = 1
  MaxPubOps = 0
  PubInits <- PubInitsOne
  Res = {1, 2}
SPECIFICATION SpecDeleg
VIEW ViewD
INVARIANTS TypeOKD FollowsParent
PROPERTIES LeaseWithinGrant NoSelfExtension
CHECK_DEADLOCK FALSE
