----------------------------- MODULE MC_Lease64 -----------------------------
(* constants of the DNS64 configurations of the answer half                 *)
(* (MC_Lease64_*.cfg, Sim_Lease64.cfg); the delegation half is frozen       *)
EXTENDS Lease64
Keys64  == {"d6", "d4"}
Chain64 == <<"d4">>
AuxN == {NoAux}
AuxQ == {NoAux, 3}
AuxS == {NoAux, 1, 3, 7}
ZonesA == {"p"}
ParentA == [z \in ZonesA |-> "root"]
PubA == {[z \in ZonesA |-> [present |-> TRUE, ns |-> 7, ds |-> NoDS, ver |-> 1]]}
=============================================================================
