\* DNS64 over the cache with the RFC 9520 failure record of the AAAA question (Fail64 / HitFail, FailTTL = 5): C04's
\* lifetime properties and C20's "never over a cached failure" hold
CONSTANTS
  Ticks = {1, 2, 5}
  Horizon = 100000
  RawTTLs = {0, 7}
  AuxSet <- AuxN
  Deltas = {3}
  Floor = 5
  Cap = 86400
  EcsCap = 3
  CutMax = 0
  Keys <- Keys64
  Chain <- Chain64
  NegKey = "d6"
  ScopedKey = "sc"
  V6Key = "d6"
  V4Key = "d4"
  NegRule = "rfc2308"
  FailTTL = 5
  FailRule = "terminal"
  Routes = {"msg", "wire"}
  Reqs = {1}
  MaxLeases = 1
  Zones <- ZonesA
  Parent <- ParentA
  DTTLs = {7}
  Ceil = 43200
  ProvCap = 60
  MaxVer = 1
  MaxPubOps = 0
  PubInits <- PubA
  Res = {1}
SPECIFICATION Spec64
VIEW View64
INVARIANTS TypeOK64
PROPERTIES ServedLive TTLShown TTLMonotone ComposedMin LateWriteLoses NeverOverCachedFailure NoLookupOverCachedFailure CachedFailureAnswers
CHECK_DEADLOCK FALSE
