CONSTANTS
  Ticks = {1, 2, 3, 5}
  Horizon = 100000000
  RawTTLs = {0, 3, 7, 300}
  AuxSet <- TAux
  Deltas = {1}
  Floor = 5
  Cap = 86400
  EcsCap = 3
  CutMax = 0
  Keys = {"tg"}
  Chain <- TChainNone
  NegKey = "ng"
  ScopedKey = "sc"
  Routes = {"msg"}
  Reqs = {1}
  MaxLeases = 1
  Zones <- TZonesD
  Parent <- TParentD
  DTTLs = {0, 1, 3, 7, 50000}
  Ceil = 43200
  ProvCap = 60
  MaxVer = 100
  MaxPubOps = 100
  PubInits <- TPub0
  Res = {1, 2}
SPECIFICATION TraceSpecD
INVARIANTS TypeOKD FollowsParent ObservedFollowsParent ServedFollowsParent
PROPERTIES LeaseWithinGrant NoSelfExtension
POSTCONDITION TraceAccepted
CHECK_DEADLOCK FALSE
