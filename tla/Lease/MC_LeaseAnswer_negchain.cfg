CONSTANTS
  Ticks = {1, 2, 5}
  Horizon = 100000
  RawTTLs = {0, 7}
  AuxSet <- AuxN
  Deltas = {1, 3}
  Floor = 5
  Cap = 86400
  EcsCap = 3
  CutMax = 0
  Keys <- KeysQN
  Chain <- ChainQN
  NegKey = "ng"
  ScopedKey = "sc"
  Routes = {"msg", "wire"}
  Reqs = {1}
  MaxLeases = 1
  Zones <- ZonesA
  Parent <- ParentA
  DTTLs = {7}
  Ceil = 43200
  ProvCap = 60
  MaxVer = 1
  MaxPubOps = 0
  PubInits <- PubA
  Res = {1}
SPECIFICATION SpecAnswer
VIEW ViewA
INVARIANTS TypeOKA
PROPERTIES ServedLive TTLShown TTLMonotone ComposedMin LateWriteLoses
CHECK_DEADLOCK FALSE
