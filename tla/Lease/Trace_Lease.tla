----------------------------- MODULE Trace_Lease -----------------------------
(***************************************************************************)
(* Validation of executions recorded from the real code by the API-tier    *)
(* drivers (harness/c04, harness/c08) against Lease.tla.  One NDJSON line  *)
(* per driver operation, many behaviours concatenated with Reset lines.    *)
(*                                                                         *)
(* The trace specs are property MONITORS: the model's actions supply the   *)
(* bookkeeping (who observed what, which lease was granted, which cut a    *)
(* request inherited) while everything the implementation decided -- the   *)
(* deadline a delegation was stored with, whether a Get/hit succeeded,     *)
(* which entry answered and the TTL it showed, whether a refresh was       *)
(* swapped in -- is taken from the log.  The property invariants of        *)
(* Lease.tla are then evaluated on those observed values at every step: a  *)
(* failing INVARIANT/PROPERTY = the property is false on a real execution. *)
(* A line that no action explains only ends the match (drift).             *)
(***************************************************************************)
EXTENDS Lease, Json, IOUtils

TraceLog == ndJsonDeserialize(IOEnv.TRACE_FILE)

VARIABLES l,      \* next line of the log
          tent    \* answer half: every entry ever stored, by id: [key, exp]
tvars == <<vars, l, tent>>

Line == TraceLog[l]
IsEv(e) == l <= Len(TraceLog) /\ Line.ev = e /\ l' = l + 1
Arg(i) == Line.args[i]

(* ------------------------- constants of the runs ------------------------- *)
TZonesD  == {"p", "c", "g", "s"}
TParentD == [z \in TZonesD |-> CASE z = "p" -> "root" [] z = "c" -> "p"
                                   [] z = "g" -> "c" [] z = "s" -> "p"]
TPub0    == {[z \in TZonesD |-> [present |-> TRUE, ns |-> 7, ds |-> NoDS, ver |-> 1]]}
TAux     == {NoAux, 1, 3, 7}
TKeysA   == {"al", "md", "tg", "ng", "sc"}
TChainA  == <<"al", "md", "tg">>
TChainNone == <<"tg">>
TChainN  == <<"al", "md", "ng">>
TZonesA  == {"p"}
TParentA == [z \in TZonesA |-> "root"]
TPubA    == {[z \in TZonesA |-> [present |-> TRUE, ns |-> 7, ds |-> NoDS, ver |-> 1]]}

(***************************************************************************)
(*                         delegation half (C08)                           *)
(***************************************************************************)
DReset ==
  /\ IsEv("Reset")
  /\ now' = 0
  /\ pub' = [z \in Zones |-> [present |-> Line.pub[z].present, ns |-> Line.pub[z].ns,
                              ds |-> Line.pub[z].ds, ver |-> Line.pub[z].ver]]
  /\ deleg' = [z \in Zones |-> NoneD]
  /\ granted' = [z \in Zones |-> 0]
  /\ rs' = [r \in Res |-> IdleRes]
  /\ dans' = [z \in Zones |-> NoneA]
  /\ dreply' = NoDReply
  /\ UNCHANGED avars

(* what the real cache showed after the step: remaining seconds of every    *)
(* delegation Get returned (0 = nothing returned)                           *)
ObsVisible(z) == Line.vis[z] > 0
(* the model's bookkeeping must be in step with the driver's                *)
InStep == now' = Line.now /\ \A z \in Zones : granted'[z] = Line.granted[z]

(* the deadline the implementation stored replaces the model's own          *)
Observed(d, e, o, anc, prov) ==
  IF Line.vis[e] > 0
    THEN [d EXCEPT ![e] = [expires |-> Line.now + Line.vis[e], observedAt |-> o.t, ins |-> now,
                           grant |-> LeaseOf(o.t, o.ns, o.ds), anc |-> anc, ver |-> o.ver,
                           prov |-> prov]]
    ELSE d

DInsert ==
  /\ IsEv("InsertDeleg")
  /\ LET r == Arg(1) o == rs[r].obs cd == ChildDeadline(r) IN
     /\ rs[r].st = "observed"
     /\ deleg' = IF cd > now THEN Observed(deleg, o.e, o, rs[r].cut, FALSE) ELSE deleg
     /\ rs' = [rs EXCEPT ![r].st = "at", ![r].at = o.e, ![r].obs = NoObs, ![r].cut = cd,
                         ![r].ins = FALSE, ![r].np = 0]
     /\ dreply' = [kind |-> "insert", r |-> r, e |-> o.e, deadline |-> cd]
  /\ UNCHANGED <<now, pub, granted, dans, avars>>

DProvisional ==
  /\ IsEv("ProvisionalInsert")
  /\ LET r == Arg(1) o == rs[r].obs cd == Min2(ChildDeadline(r), now + ProvCap) IN
     /\ rs[r].st = "observed"
     /\ deleg' = IF cd > now THEN Observed(deleg, o.e, o, rs[r].cut, TRUE) ELSE deleg
     /\ rs' = [rs EXCEPT ![r].ins = TRUE, ![r].np = @ + 1]
     /\ dreply' = [kind |-> "insert", r |-> r, e |-> o.e, deadline |-> cd]
  /\ UNCHANGED <<now, pub, granted, dans, avars>>

(* the cached deadline the descent inherits is the one the code returned    *)
DDescend ==
  /\ IsEv("DescendCached")
  /\ LET r == Arg(1) e == rs[r].obs.e IN
     /\ rs[r].st = "observed" /\ ObsVisible(e)
     /\ rs' = [rs EXCEPT ![r].st = "at", ![r].at = e, ![r].obs = NoObs,
                         ![r].cut = Min2(ChildDeadline(r), deleg[e].expires)]
     /\ dreply' = [kind |-> "descend", r |-> r, e |-> e, cut |-> Min2(ChildDeadline(r), deleg[e].expires)]
  /\ UNCHANGED <<now, pub, deleg, granted, dans, avars>>

DServe ==
  /\ IsEv("ServeAnswer")
  /\ dreply' = [kind |-> "serve", z |-> Arg(1), hit |-> Line.hit, shown |-> Line.shown]
  /\ UNCHANGED <<now, pub, deleg, granted, rs, dans, avars>>

DModel ==       \* steps in which the implementation decides nothing the monitor binds
  \/ IsEv("ParentWithdraw") /\ ParentWithdraw(Arg(1))
  \/ IsEv("ParentRepoint") /\ ParentRepoint(Arg(1))
  \/ IsEv("ParentRetime") /\ ParentRetime(Arg(1), Arg(2), Arg(3))
  \/ IsEv("SeedFromDelegCache") /\ SeedFromDelegCache(Arg(1), Arg(2))
  \/ IsEv("AskZone") /\ AskZone(Arg(1))
  \/ IsEv("SelfReferral") /\ SelfReferral(Arg(1))
  \/ IsEv("AnswerFromLeaf") /\ AnswerFromLeaf(Arg(1), Arg(2))
  \/ IsEv("TickD") /\ TickD(Arg(1))

TraceNextD == (DReset \/ ((DInsert \/ DProvisional \/ DDescend \/ DServe \/ DModel) /\ InStep)) /\ UNCHANGED tent
TraceInitD == InitDeleg /\ l = 1 /\ tent = <<>>
TraceSpecD == TraceInitD /\ [][TraceNextD]_tvars

(* what the real Get returned is inside every lease granted on the path     *)
ObservedFollowsParent ==
  (l > 1 /\ TraceLog[l - 1].ev # "Reset") =>
     \A z \in Zones : TraceLog[l - 1].ret[z] =>
        /\ \A a \in PathSet(z) : now < granted[a]
        /\ Visible(z)
(* an answer the real cache served was learned through leases still running *)
ServedFollowsParent ==
  (dreply.kind = "serve" /\ dreply.hit) =>
     /\ dans[dreply.z].id # 0
     /\ \A a \in PathSet(dans[dreply.z].via) : now < granted[a]

TraceAccepted == TLCGet("stats").diameter - 1 = Len(TraceLog)
(***************************************************************************)
(*                           answer half (C04)                             *)
(* The monitor keeps, per entry id, the lifetime the implementation stored *)
(* (effective TTL and cut read back through the overlay accessor) and      *)
(* judges every observed reply against it.                                 *)
(***************************************************************************)
ToSet(s) == {s[i] : i \in 1..Len(s)}
CutV(c) == IF c = -1 THEN NoCut ELSE c

AReset ==
  /\ IsEv("Reset")
  /\ now' = 0 /\ tent' = <<>>
  /\ ans' = [q \in Keys |-> NoneE] /\ scut' = NoneC /\ proof' = [p \in {"soa", "nsec"} |-> NoneC]
  /\ req' = [r \in Reqs |-> IdleReq] /\ pf' = [q \in Keys |-> 0] /\ nextId' = 1
  /\ reply' = NoReply /\ lastShown' = [i \in {} |-> NoCut]
  /\ UNCHANGED dvars

(* entries the step stored, as observed: [key, id, raw, aux, ttl, cut] *)
StoredNow == IF "stored" \in DOMAIN Line THEN ToSet(Line.stored) ELSE {}
ObsEntry(s) == [id |-> s.id, stored |-> now, ttl |-> s.ttl, cutUntil |-> CutV(s.cut), ver |-> 0,
                kind |-> KindOf(s.key)]
ApplyStores ==
  /\ ans' = [q \in Keys |-> IF \E s \in StoredNow : s.key = q
                              THEN ObsEntry(CHOOSE s \in StoredNow : s.key = q) ELSE ans[q]]
  /\ tent' = [i \in DOMAIN tent \cup {s.id : s \in StoredNow} |->
                IF \E s \in StoredNow : s.id = i
                  THEN LET s == CHOOSE x \in StoredNow : x.id = i
                       IN [key |-> s.key, exp |-> Expiry(ObsEntry(s))]
                  ELSE tent[i]]

(* a completed client query / Store lookup / synthesised denial *)
ADone ==
  /\ l <= Len(TraceLog) /\ l' = l + 1
  /\ "done" \in DOMAIN Line /\ Line.now = now
  /\ LET obs == ToSet(Line.pieces) IN
     /\ \A p \in obs : p.id \in DOMAIN tent /\ tent[p.id].key = p.key      \* explained
     /\ LET pcs == {[key |-> p.key, id |-> p.id, shown |-> p.shown, exp |-> tent[p.id].exp, lvl |-> p.lvl] : p \in obs}
        IN /\ reply' = [kind |-> "reply", r |-> 0, q |-> Line.q, route |-> Line.route,
                        answered |-> Line.answered, pieces |-> pcs,
                        stored |-> {[key |-> s.key, id |-> s.id, exp |-> Expiry(ObsEntry(s)),
                                     lvl |-> IF "lvl" \in DOMAIN s THEN s.lvl ELSE 1] : s \in StoredNow},
                        leases |-> {[lvl |-> L.lvl, d |-> L.d] : L \in ToSet(Line.leases)},
                        rootcut |-> CutV(Line.rootcut)]
           /\ lastShown' = Shown(pcs)
  /\ ApplyStores
  /\ UNCHANGED <<now, scut, proof, req, pf, nextId, dvars>>

(* a request parked in the downstream handler, a lease folded into it: the   *)
(* monitor waits for the completion, which carries the whole lineage         *)
ANoop ==
  /\ l <= Len(TraceLog) /\ l' = l + 1
  /\ Line.ev \in {"HitMsg", "HitWire", "Chase", "CacheWrite", "NoAnswer", "Lease"}
  /\ "done" \notin DOMAIN Line /\ Line.now = now
  /\ reply' = NoReply
  /\ UNCHANGED <<now, ans, scut, proof, req, pf, nextId, lastShown, tent, dvars>>

AWrite ==
  /\ IsEv("SubQueryWrite") /\ Line.now = now
  /\ ApplyStores
  /\ reply' = [kind |-> "write", q |-> Arg(1), id |-> Line.id]
  /\ UNCHANGED <<now, scut, proof, req, pf, nextId, lastShown, dvars>>

ACutWrite ==
  /\ IsEv("CutWrite") /\ Line.now = now
  /\ IF Line.ok
       THEN /\ scut' = [id |-> Line.id, expires |-> Line.exp]
            /\ tent' = [i \in DOMAIN tent \cup {Line.id} |->
                          IF i = Line.id THEN [key |-> "cut", exp |-> Line.exp] ELSE tent[i]]
       ELSE UNCHANGED <<scut, tent>>
  /\ reply' = [kind |-> "cutwrite", ok |-> Line.ok,
               ttl |-> IF Line.ok THEN Line.exp - now ELSE 0,
               rule |-> BareTTL(Arg(1), Arg(2), IF Arg(3) = NoAux THEN NoCut ELSE now + Arg(3))]
  /\ UNCHANGED <<now, ans, proof, req, pf, nextId, lastShown, dvars>>

AProofWrite ==
  /\ IsEv("ProofWrite") /\ Line.now = now
  /\ IF Line.ok
       THEN /\ proof' = [p \in {"soa", "nsec"} |-> IF p = "soa" THEN [id |-> Line.id, expires |-> Line.expS]
                                                      ELSE [id |-> Line.id + 1, expires |-> Line.expN]]
            /\ tent' = [i \in DOMAIN tent \cup {Line.id, Line.id + 1} |->
                          IF i = Line.id THEN [key |-> "soa", exp |-> Line.expS]
                          ELSE IF i = Line.id + 1 THEN [key |-> "nsec", exp |-> Line.expN] ELSE tent[i]]
       ELSE UNCHANGED <<proof, tent>>
  /\ LET c == IF Arg(3) = NoAux THEN NoCut ELSE now + Arg(3) IN
     reply' = [kind |-> "proofwrite", ok |-> Line.ok,
               ttlS |-> IF Line.ok THEN Line.expS - now ELSE 0, ruleS |-> BareTTL(Arg(1), NoAux, c),
               ttlN |-> IF Line.ok THEN Line.expN - now ELSE 0, ruleN |-> BareTTL(Arg(2), NoAux, c)]
  /\ UNCHANGED <<now, ans, scut, req, pf, nextId, lastShown, dvars>>

APrefetchStart ==
  /\ IsEv("PrefetchStart") /\ Line.now = now
  /\ pf' = [pf EXCEPT ![Arg(1)] = Line.id]
  /\ reply' = [kind |-> "claim", q |-> Arg(1), id |-> Line.id]
  /\ UNCHANGED <<now, ans, scut, proof, req, nextId, lastShown, tent, dvars>>

APrefetchDone ==
  /\ IsEv("PrefetchComplete") /\ Line.now = now
  /\ ApplyStores
  /\ pf' = [pf EXCEPT ![Arg(1)] = 0]
  /\ reply' = [kind |-> "pfdone", q |-> Arg(1), id |-> Line.id, swapped |-> Line.swapped,
               claimed |-> Line.claimed, holder |-> Line.holder]
  /\ UNCHANGED <<now, scut, proof, req, nextId, lastShown, dvars>>

APurge ==
  /\ IsEv("Purge") /\ Line.now = now
  /\ Purge(Arg(1))
  /\ UNCHANGED tent

ATick ==
  /\ IsEv("TickA")
  /\ now' = now + Arg(1) /\ Line.now = now'
  /\ reply' = NoReply
  /\ UNCHANGED <<ans, scut, proof, req, pf, nextId, lastShown, tent, dvars>>

TraceNextA == AReset \/ ADone \/ ANoop \/ AWrite \/ ACutWrite \/ AProofWrite \/ APrefetchStart
              \/ APrefetchDone \/ APurge \/ ATick
TraceInitA == InitAnswer /\ l = 1 /\ tent = <<>>
TraceSpecA == TraceInitA /\ [][TraceNextA]_tvars

(* the lifetime the implementation gave what it stored obeys the TTL rule:  *)
(* never more than floor/cap applied to the smallest TTL source (and the    *)
(* ECS cap); subtree cuts and proof RRsets take no floor                    *)
TTLRuleStep ==
  /\ \A s \in {x \in (IF l <= Len(TraceLog) /\ "stored" \in DOMAIN Line THEN ToSet(Line.stored) ELSE {}) : TRUE} :
        s.ttl <= EffTTL(s.raw, s.aux, KindOf(s.key))
  /\ reply'.kind = "cutwrite" => reply'.ttl <= reply'.rule
  /\ reply'.kind = "proofwrite" => (reply'.ttlS <= reply'.ruleS /\ reply'.ttlN <= reply'.ruleN)
TTLRule == [][TTLRuleStep]_tvars
(* in the monitor a refresh that lost the race stores nothing: the log has  *)
(* no stored entry for it                                                   *)
LateWriteLosesT == [][reply'.kind = "pfdone" => (reply'.swapped => reply'.holder = reply'.claimed)]_tvars
=============================================================================
