----------------------------- MODULE Trace_Lease -----------------------------
(***************************************************************************)
(* Validation of executions recorded from the real code by the API-tier    *)
(* drivers (harness/c04, harness/c08) against Lease.tla.  One NDJSON line  *)
(* per driver operation, many behaviours concatenated with Reset lines.    *)
(*                                                                         *)
(* The trace specs are property MONITORS: the model's actions supply the   *)
(* bookkeeping (who observed what, which lease was granted, which cut a    *)
(* request inherited) while everything the implementation decided -- the   *)
(* deadline a delegation was stored with, whether a Get/hit succeeded,     *)
(* which entry answered and the TTL it showed, whether a refresh was       *)
(* swapped in -- is taken from the log.  The property invariants of        *)
(* Lease.tla are then evaluated on those observed values at every step: a  *)
(* failing INVARIANT/PROPERTY = the property is false on a real execution. *)
(* A line that no action explains only ends the match (drift).             *)
(***************************************************************************)
EXTENDS Lease, Json, IOUtils

TraceLog == ndJsonDeserialize(IOEnv.TRACE_FILE)

VARIABLE l
tvars == <<vars, l>>

Line == TraceLog[l]
IsEv(e) == l <= Len(TraceLog) /\ Line.ev = e /\ l' = l + 1
Arg(i) == Line.args[i]

(* ------------------------- constants of the runs ------------------------- *)
TZonesD  == {"p", "c", "g", "s"}
TParentD == [z \in TZonesD |-> CASE z = "p" -> "root" [] z = "c" -> "p"
                                   [] z = "g" -> "c" [] z = "s" -> "p"]
TPub0    == {[z \in TZonesD |-> [present |-> TRUE, ns |-> 7, ds |-> NoDS, ver |-> 1]]}
TAux     == {NoAux, 1, 3, 7}
TKeysA   == {"al", "md", "tg", "ng", "sc"}
TChainA  == <<"al", "md", "tg">>
TChainNone == <<"tg">>
TZonesA  == {"p"}
TParentA == [z \in TZonesA |-> "root"]
TPubA    == {[z \in TZonesA |-> [present |-> TRUE, ns |-> 7, ds |-> NoDS, ver |-> 1]]}

(***************************************************************************)
(*                         delegation half (C08)                           *)
(***************************************************************************)
DReset ==
  /\ IsEv("Reset")
  /\ now' = 0
  /\ pub' = [z \in Zones |-> [present |-> Line.pub[z].present, ns |-> Line.pub[z].ns,
                              ds |-> Line.pub[z].ds, ver |-> Line.pub[z].ver]]
  /\ deleg' = [z \in Zones |-> NoneD]
  /\ granted' = [z \in Zones |-> 0]
  /\ rs' = [r \in Res |-> IdleRes]
  /\ dans' = [z \in Zones |-> NoneA]
  /\ dreply' = NoDReply
  /\ UNCHANGED avars

(* what the real cache showed after the step: remaining seconds of every    *)
(* delegation Get returned (0 = nothing returned)                           *)
ObsVisible(z) == Line.vis[z] > 0
(* the model's bookkeeping must be in step with the driver's                *)
InStep == now' = Line.now /\ \A z \in Zones : granted'[z] = Line.granted[z]

(* the deadline the implementation stored replaces the model's own          *)
Observed(d, e, o, anc, prov) ==
  IF Line.vis[e] > 0
    THEN [d EXCEPT ![e] = [expires |-> Line.now + Line.vis[e], observedAt |-> o.t, ins |-> now,
                           grant |-> LeaseOf(o.t, o.ns, o.ds), anc |-> anc, ver |-> o.ver,
                           prov |-> prov]]
    ELSE d

DInsert ==
  /\ IsEv("InsertDeleg")
  /\ LET r == Arg(1) o == rs[r].obs cd == ChildDeadline(r) IN
     /\ rs[r].st = "observed"
     /\ deleg' = IF cd > now THEN Observed(deleg, o.e, o, rs[r].cut, FALSE) ELSE deleg
     /\ rs' = [rs EXCEPT ![r].st = "at", ![r].at = o.e, ![r].obs = NoObs, ![r].cut = cd,
                         ![r].ins = FALSE, ![r].np = 0]
     /\ dreply' = [kind |-> "insert", r |-> r, e |-> o.e, deadline |-> cd]
  /\ UNCHANGED <<now, pub, granted, dans, avars>>

DProvisional ==
  /\ IsEv("ProvisionalInsert")
  /\ LET r == Arg(1) o == rs[r].obs cd == Min2(ChildDeadline(r), now + ProvCap) IN
     /\ rs[r].st = "observed"
     /\ deleg' = IF cd > now THEN Observed(deleg, o.e, o, rs[r].cut, TRUE) ELSE deleg
     /\ rs' = [rs EXCEPT ![r].ins = TRUE, ![r].np = @ + 1]
     /\ dreply' = [kind |-> "insert", r |-> r, e |-> o.e, deadline |-> cd]
  /\ UNCHANGED <<now, pub, granted, dans, avars>>

(* the cached deadline the descent inherits is the one the code returned    *)
DDescend ==
  /\ IsEv("DescendCached")
  /\ LET r == Arg(1) e == rs[r].obs.e IN
     /\ rs[r].st = "observed" /\ ObsVisible(e)
     /\ rs' = [rs EXCEPT ![r].st = "at", ![r].at = e, ![r].obs = NoObs,
                         ![r].cut = Min2(ChildDeadline(r), deleg[e].expires)]
     /\ dreply' = [kind |-> "descend", r |-> r, e |-> e, cut |-> Min2(ChildDeadline(r), deleg[e].expires)]
  /\ UNCHANGED <<now, pub, deleg, granted, dans, avars>>

DServe ==
  /\ IsEv("ServeAnswer")
  /\ dreply' = [kind |-> "serve", z |-> Arg(1), hit |-> Line.hit, shown |-> Line.shown]
  /\ UNCHANGED <<now, pub, deleg, granted, rs, dans, avars>>

DModel ==       \* steps in which the implementation decides nothing the monitor binds
  \/ IsEv("ParentWithdraw") /\ ParentWithdraw(Arg(1))
  \/ IsEv("ParentRepoint") /\ ParentRepoint(Arg(1))
  \/ IsEv("ParentRetime") /\ ParentRetime(Arg(1), Arg(2), Arg(3))
  \/ IsEv("SeedFromDelegCache") /\ SeedFromDelegCache(Arg(1), Arg(2))
  \/ IsEv("AskZone") /\ AskZone(Arg(1))
  \/ IsEv("SelfReferral") /\ SelfReferral(Arg(1))
  \/ IsEv("AnswerFromLeaf") /\ AnswerFromLeaf(Arg(1), Arg(2))
  \/ IsEv("TickD") /\ TickD(Arg(1))

TraceNextD == DReset \/ ((DInsert \/ DProvisional \/ DDescend \/ DServe \/ DModel) /\ InStep)
TraceInitD == InitDeleg /\ l = 1
TraceSpecD == TraceInitD /\ [][TraceNextD]_tvars

(* what the real Get returned is inside every lease granted on the path     *)
ObservedFollowsParent ==
  (l > 1 /\ TraceLog[l - 1].ev # "Reset") =>
     \A z \in Zones : TraceLog[l - 1].vis[z] > 0 =>
        /\ \A a \in PathSet(z) : now < granted[a]
        /\ Visible(z)
(* an answer the real cache served was learned through leases still running *)
ServedFollowsParent ==
  (dreply.kind = "serve" /\ dreply.hit) =>
     /\ dans[dreply.z].id # 0
     /\ \A a \in PathSet(dans[dreply.z].via) : now < granted[a]

TraceAccepted == TLCGet("stats").diameter - 1 = Len(TraceLog)
(*ANSWER-HALF*)
=============================================================================
