------------------------------ MODULE Lease64 ------------------------------
(***************************************************************************)
(* The DNS64 dimension of the ANSWER half of Lease.tla (C04: "Replies       *)
(* composed from several cached pieces (alias chases on either path,        *)
(* synthesised denials, DNS64) ... inherit the shortest lifetime among the  *)
(* pieces"; C20: "TTL no larger than both the A TTL and the AAAA negative   *)
(* TTL").                                                                   *)
(*                                                                          *)
(* middleware/dns64 stands in front of middleware/cache.  A DNS64-eligible  *)
(* client asks AAAA for a name that has only an A RRset:                    *)
(*                                                                          *)
(*   V6Key   the AAAA question of the name: a NODATA answer + SOA, stored   *)
(*           as a negative entry (it IS Lease's NegKey in these configs,    *)
(*           so every action of the answer half -- admission through a      *)
(*           parked downstream stage, direct Store writes under a lease,    *)
(*           refresh CAS, purge, plain hits from clients that are not       *)
(*           DNS64-eligible on all routes -- runs on it unchanged)          *)
(*   V4Key   the A question of the same name: a positive entry              *)
(*                                                                          *)
(* Hit64 = one eligible client query.  dns64.responseWriter.WriteMsg gets   *)
(* the NODATA from the cache hit -- its SOA record now carries the time     *)
(* the entry has LEFT as TTL while the MINIMUM rdata field still has the    *)
(* admitted value -- asks the internal sub-pipeline for the A RRset (a      *)
(* second cache hit, its own remaining TTL) and synthesises AAAA records    *)
(* with TTL = min(negativeAAAATTL(NODATA), A TTLs).  Both entries are       *)
(* pieces of the composed reply.  The scripted downstream handler does not  *)
(* answer during Hit64 (entries are admitted by the other actions), so:     *)
(*   both live            -> synthesised reply, pieces {V6Key, V4Key}       *)
(*   NODATA live, A dead  -> A lookup fails, the NODATA is relayed, {V6Key} *)
(*   NODATA dead          -> no reply                                       *)
(*                                                                          *)
(* NegRule: how the AAAA negative TTL is read off the NODATA that the       *)
(* cache served.  "rfc2308" = min(SOA TTL, SOA MINIMUM) -- the SOA TTL is   *)
(* the remaining lifetime of the entry, which is <= MINIMUM whenever        *)
(* MINIMUM >= Floor (below the floor the code shows even less than the      *)
(* model: the driver accepts that).  "minimum" = the model mutant: SOA      *)
(* MINIMUM alone, which never decays (the admitted value) -- TTLShown must  *)
(* fail (MC_Lease64_negminimum.cfg).                                        *)
(*                                                                          *)
(* TTLMonotone: the synthesised TTL is min over two entries, so it may be   *)
(* lower than what a plain hit on either entry shows next; it is checked    *)
(* against the plain history (never above it) but does not tighten it.      *)
(***************************************************************************)
EXTENDS Lease

CONSTANTS V6Key, V4Key, NegRule

ASSUME D64Keys == /\ V6Key = NegKey /\ V6Key \in Keys /\ V4Key \in Keys /\ V4Key # V6Key
                  /\ ~IsAlias(V4Key) /\ V4Key # ScopedKey
                  /\ NegRule \in {"rfc2308", "minimum"}

Rem(e) == Expiry(e) - now
Neg64(e) == IF NegRule = "rfc2308" THEN Rem(e) ELSE e.ttl
Piece64(k, e, s) == [key |-> k, id |-> e.id, shown |-> s, exp |-> Expiry(e), lvl |-> 1]

Hit64(route) ==
  /\ route \in Routes
  /\ \A r \in Reqs : req[r].st = "idle"     \* one leader per key; both keys are this query's
  /\ LET e6 == ans[V6Key]
         e4 == ans[V4Key]
     IN IF LiveE(e6)
          THEN IF LiveE(e4)
                 THEN LET s == Min2(Neg64(e6), Rem(e4)) IN
                      /\ reply' = [kind |-> "reply", r |-> 0, q |-> "d64", route |-> route, answered |-> TRUE,
                                   pieces |-> {Piece64(V6Key, e6, s), Piece64(V4Key, e4, s)},
                                   stored |-> {}, leases |-> {},
                                   rootcut |-> Min2(Expiry(e6), Expiry(e4))]
                      /\ ans' = ans
                 ELSE /\ reply' = [kind |-> "reply", r |-> 0, q |-> "d64", route |-> route, answered |-> TRUE,
                                   pieces |-> {Piece64(V6Key, e6, Rem(e6))},
                                   stored |-> {}, leases |-> {}, rootcut |-> Expiry(e6)]
                      /\ ans' = Reap(ans, V4Key)
          ELSE /\ reply' = [kind |-> "reply", r |-> 0, q |-> "d64", route |-> route, answered |-> FALSE,
                            pieces |-> {}, stored |-> {}, leases |-> {}, rootcut |-> NoCut]
               /\ ans' = Reap(ans, V6Key)
  /\ UNCHANGED <<now, scut, proof, req, pf, nextId, lastShown, dvars>>

Next64 == NextA \/ \E rt \in Routes : Hit64(rt)
Spec64 == InitAnswer /\ [][Next64]_vars

(* -simulate: two keys only, so the write actions are made rarer than in    *)
(* NextASim by their own guards (the D-variants keep their arguments in the  *)
(* action labels; the runner maps them back to the plain names)              *)
SubQueryWriteD(q, raw, aux, d) == Rare(50) /\ SubQueryWrite(q, raw, aux, d)
CacheWriteD(r, raw, aux) == Rare(3) /\ CacheWrite(r, raw, aux)
PrefetchCompleteD(q, raw, aux, d) == Rare(10) /\ PrefetchComplete(q, raw, aux, d)
NoAnswerD(r) == Rare(3) /\ NoAnswer(r)
PurgeD(q) == Rare(6) /\ Purge(q)
Hit64D(rt, n) == Hit64(rt)          \* n: weight (several instances of the same successor)
NextSim64 ==
  \/ \E r \in Reqs, q \in Keys, rt \in Routes : HitMsg(r, q, rt)
  \/ \E r \in Reqs, q \in Keys : HitWire(r, q) \/ GetEntry(r, q)
  \/ \E r \in Reqs : NoAnswerD(r)
  \/ \E r \in Reqs, d \in Deltas : LeaseS(r, d)
  \/ \E r \in Reqs, raw \in RawTTLs, aux \in AuxSet : CacheWriteD(r, raw, aux)
  \/ \E q \in Keys, raw \in RawTTLs, aux \in AuxSet, d \in Deltas \cup {NoAux} :
        SubQueryWriteD(q, raw, aux, d) \/ PrefetchCompleteD(q, raw, aux, d)
  \/ \E q \in Keys : PrefetchStart(q) \/ PurgeD(q)
  \/ \E d \in Ticks : TickA(d)
  \/ \E rt \in Routes, n \in 1..3 : Hit64D(rt, n)
=============================================================================
