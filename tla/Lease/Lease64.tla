------------------------------ MODULE Lease64 ------------------------------
(***************************************************************************)
(* The DNS64 dimension of the ANSWER half of Lease.tla (C04: "Replies       *)
(* composed from several cached pieces (alias chases on either path,        *)
(* synthesised denials, DNS64) ... inherit the shortest lifetime among the  *)
(* pieces"; C20: "TTL no larger than both the A TTL and the AAAA negative   *)
(* TTL").                                                                   *)
(*                                                                          *)
(* middleware/dns64 stands in front of middleware/cache.  A DNS64-eligible  *)
(* client asks AAAA for a name that has only an A RRset:                    *)
(*                                                                          *)
(*   V6Key   the AAAA question of the name: a NODATA answer + SOA, stored   *)
(*           as a negative entry (it IS Lease's NegKey in these configs,    *)
(*           so every action of the answer half -- admission through a      *)
(*           parked downstream stage, direct Store writes under a lease,    *)
(*           refresh CAS, purge, plain hits from clients that are not       *)
(*           DNS64-eligible on all routes -- runs on it unchanged)          *)
(*   V4Key   the A question of the same name: a positive entry              *)
(*                                                                          *)
(* Hit64 = one eligible client query.  dns64.responseWriter.WriteMsg gets   *)
(* the NODATA from the cache hit -- its SOA record now carries the time     *)
(* the entry has LEFT as TTL while the MINIMUM rdata field still has the    *)
(* admitted value -- asks the internal sub-pipeline for the A RRset (a      *)
(* second cache hit, its own remaining TTL) and synthesises AAAA records    *)
(* with TTL = min(negativeAAAATTL(NODATA), A TTLs).  Both entries are       *)
(* pieces of the composed reply.  The scripted downstream handler does not  *)
(* answer during Hit64 (entries are admitted by the other actions), so:     *)
(*   both live            -> synthesised reply, pieces {V6Key, V4Key}       *)
(*   NODATA live, A dead  -> A lookup fails, the NODATA is relayed, {V6Key} *)
(*   NODATA dead          -> no reply                                       *)
(*                                                                          *)
(* NegRule: how the AAAA negative TTL is read off the NODATA that the       *)
(* cache served.  "rfc2308" = min(SOA TTL, SOA MINIMUM) -- the SOA TTL is   *)
(* the remaining lifetime of the entry, which is <= MINIMUM whenever        *)
(* MINIMUM >= Floor (below the floor the code shows even less than the      *)
(* model: the driver accepts that).  "minimum" = the model mutant: SOA      *)
(* MINIMUM alone, which never decays (the admitted value) -- TTLShown must  *)
(* fail (MC_Lease64_negminimum.cfg).                                        *)
(*                                                                          *)
(* The FAILURE dimension (C20: "Synthesis happens ... never over ... a       *)
(* cached or request-local failure"; gap C20-r3-2).  The cache keeps an RFC  *)
(* 9520 failure record per question: a SERVFAIL the downstream wrote for the *)
(* AAAA question is remembered for FailTTL seconds (variable fail = the      *)
(* instant the record stops being active, 0 = none; the harness configures   *)
(* failure_cache_min_ttl = failure_cache_max_ttl = FailTTL, so the back-off   *)
(* never grows and a streak counter is not needed).  While it is active and   *)
(* no live NODATA entry shadows it (Cache.ServeDNS consults the exact entry   *)
(* first), every AAAA query of the name is answered from the record without   *)
(* going downstream:                                                         *)
(*   Fail64   an eligible client's AAAA query, no live NODATA, no active      *)
(*            record: the downstream answers SERVFAIL.  The cache records the *)
(*            failure; dns64 sees a FRESH plain SERVFAIL (RFC 6147 5.1.3: no  *)
(*            answer), runs the A lookup and synthesises from the cached A    *)
(*            RRset under the 600 s no-SOA ceiling, or relays the SERVFAIL    *)
(*   Hit64    ... with an active record: Cache.handleFailureHit answers and   *)
(*            marks the reply as a cached failure on the request's            *)
(*            ResponseMeta (a client without EDNS gets no EDE 13, the mark is *)
(*            all there is); dns64 must pass it through: no A lookup, no      *)
(*            synthesis -- on every route, the wire-born one included, where  *)
(*            dns64 has moved the request onto a detached context with a COPY *)
(*            of the meta before the cache runs                               *)
(*   HitFail  the ordinary client's AAAA query while the record is active:    *)
(*            SERVFAIL from the record on every route and Store.GetWithContext*)
(* A useful answer that reaches the client path through the cache writer      *)
(* (CacheWrite of V6Key), an unscoped direct Store write of the question     *)
(* (SubQueryWrite: Store.resetQuestionFailure) and Purge(V6Key) drop the      *)
(* record; a refresh (ReplaceIfCurrent) does not (it shadows it while it      *)
(* lives).                                                                   *)
(* FailRule "terminal" is the statement; "ignored" is the model mutant (dns64 *)
(* does not recognise the cached failure): NeverOverCachedFailure must fail   *)
(* (MC_Lease64_negfail.cfg).  FailTTL = 0 switches the dimension off.         *)
(*                                                                          *)
(* TTLMonotone: the synthesised TTL is min over two entries, so it may be   *)
(* lower than what a plain hit on either entry shows next; it is checked    *)
(* against the plain history (never above it) but does not tighten it.      *)
(***************************************************************************)
EXTENDS Lease

CONSTANTS V6Key, V4Key, NegRule,
          FailTTL,      \* RFC 9520 back-off of a recorded failure (0 = dimension off)
          FailRule      \* "terminal" | "ignored" (model mutant)

VARIABLE fail           \* instant until which the failure record of V6Key's question is active (0 = none)
vars64 == <<vars, fail>>

ASSUME D64Keys == /\ V6Key = NegKey /\ V6Key \in Keys /\ V4Key \in Keys /\ V4Key # V6Key
                  /\ ~IsAlias(V4Key) /\ V4Key # ScopedKey
                  /\ NegRule \in {"rfc2308", "minimum"}
                  /\ FailTTL \in Nat /\ FailRule \in {"terminal", "ignored"}

NoSOACeiling64 == 600      \* dns64 noSOATTLCeiling: the AAAA reply synthesised over carries no SOA

Rem(e) == Expiry(e) - now
Neg64(e) == IF NegRule = "rfc2308" THEN Rem(e) ELSE e.ttl
Piece64(k, e, s) == [key |-> k, id |-> e.id, shown |-> s, exp |-> Expiry(e), lvl |-> 1]

FailOn     == FailTTL > 0
FailActive == FailOn /\ now < fail
(* the record answers instead of the downstream: no live exact entry shadows it *)
Blocked    == FailActive /\ ~LiveE(ans[V6Key])

(* over: what the AAAA reply handed to dns64 was -- the cached "nodata", a "fresh" downstream SERVFAIL, a   *)
(* "cached" failure, or "none" (nobody answered); alook: the secondary A lookup ran; synth: AAAA synthesised *)
Reply64(route, answered, pcs, cut, over, alook, synth) ==
  [kind |-> "reply", r |-> 0, q |-> "d64", route |-> route, answered |-> answered, pieces |-> pcs,
   stored |-> {}, leases |-> {}, rootcut |-> cut, over |-> over, alook |-> alook, synth |-> synth]

(* synthesis from the A entry alone (no SOA in the reply synthesised over) *)
OverServfail(route, over, e4) ==
  IF LiveE(e4)
    THEN LET s == Min2(NoSOACeiling64, Rem(e4)) IN
         /\ reply' = Reply64(route, TRUE, {Piece64(V4Key, e4, s)}, Expiry(e4), over, TRUE, TRUE)
         /\ ans' = Reap(ans, V6Key)
    ELSE /\ reply' = Reply64(route, TRUE, {}, NoCut, over, TRUE, FALSE)      \* the SERVFAIL is relayed
         /\ ans' = Reap(Reap(ans, V6Key), V4Key)

Hit64(route) ==
  /\ route \in Routes
  /\ \A r \in Reqs : req[r].st = "idle"     \* one leader per key; both keys are this query's
  /\ LET e6 == ans[V6Key]
         e4 == ans[V4Key]
     IN IF LiveE(e6)
          THEN IF LiveE(e4)
                 THEN LET s == Min2(Neg64(e6), Rem(e4)) IN
                      /\ reply' = Reply64(route, TRUE, {Piece64(V6Key, e6, s), Piece64(V4Key, e4, s)},
                                          Min2(Expiry(e6), Expiry(e4)), "nodata", TRUE, TRUE)
                      /\ ans' = ans
                 ELSE /\ reply' = Reply64(route, TRUE, {Piece64(V6Key, e6, Rem(e6))}, Expiry(e6), "nodata", TRUE, FALSE)
                      /\ ans' = Reap(ans, V4Key)
          ELSE IF FailActive
                 THEN IF FailRule = "terminal"
                        THEN /\ reply' = Reply64(route, TRUE, {}, NoCut, "cached", FALSE, FALSE)
                             /\ ans' = Reap(ans, V6Key)
                        ELSE OverServfail(route, "cached", e4)
                 ELSE /\ reply' = Reply64(route, FALSE, {}, NoCut, "none", FALSE, FALSE)
                      /\ ans' = Reap(ans, V6Key)
  /\ UNCHANGED <<now, scut, proof, req, pf, nextId, lastShown, dvars, fail>>

(* the downstream answers the AAAA query with a plain SERVFAIL: recorded, then dns64 tries the A side *)
Fail64(route) ==
  /\ FailOn /\ route \in Routes
  /\ \A r \in Reqs : req[r].st = "idle"
  /\ ~LiveE(ans[V6Key]) /\ ~FailActive
  /\ OverServfail(route, "fresh", ans[V4Key])
  /\ fail' = now + FailTTL
  /\ UNCHANGED <<now, scut, proof, req, pf, nextId, lastShown, dvars>>

(* the ordinary (DNS64-ineligible) client asks the AAAA question while the record is active *)
HitFail(route) ==
  /\ Blocked /\ route \in Routes \cup {"get"}
  /\ \A r \in Reqs : req[r].st = "idle" \/ req[r].q # V6Key
  /\ reply' = [kind |-> "reply", r |-> 0, q |-> V6Key, route |-> route, answered |-> TRUE, pieces |-> {},
               stored |-> {}, leases |-> {}, rootcut |-> NoCut]
  /\ ans' = Reap(ans, V6Key)
  /\ UNCHANGED <<now, scut, proof, req, pf, nextId, lastShown, dvars, fail>>

(* what a step of the plain answer half does to the record / is kept from doing by it (conjoined AFTER the   *)
(* step, so the primed variables are determined): no request for V6Key goes downstream or is answered from   *)
(* the exact-entry ladder while the record answers; a useful answer through the cache writer, a direct Store *)
(* write of the question and a purge drop the record                                                                                         *)
StartsV6 == \/ \E r \in Reqs : req[r].st = "idle" /\ req'[r].st = "down" /\ req'[r].q = V6Key
            \/ (reply'.kind = "reply" /\ reply'.q = V6Key)
FailStep ==
  /\ ~(Blocked /\ StartsV6)
  /\ fail' = IF reply'.kind = "reply" /\ (\E s \in reply'.stored : s.key = V6Key) THEN 0
             ELSE IF reply'.kind \in {"purge", "write"} /\ reply'.q = V6Key THEN 0
             ELSE fail

Init64 == InitAnswer /\ fail = 0
Next64 == (NextA /\ FailStep) \/ (\E rt \in Routes : Hit64(rt) \/ Fail64(rt)) \/ (\E rt \in Routes \cup {"get"} : HitFail(rt))
Spec64 == Init64 /\ [][Next64]_vars64

TypeOK64 == TypeOKA /\ fail \in 0..(Horizon + FailTTL)
View64 == <<ViewA, IF now < fail THEN fail - now ELSE 0>>

(* C20: never over a cached failure (the statement) ...                      *)
NeverOverCachedFailureStep ==
  (IsReply(reply') /\ reply'.q = "d64") => ~(reply'.over = "cached" /\ reply'.synth)
(* ... which does not even trigger the A lookup (RFC 9520: no corresponding  *)
(* outgoing query while the back-off is active; beyond the statement)        *)
NoLookupOverCachedFailureStep ==
  (IsReply(reply') /\ reply'.q = "d64") => ~(reply'.over = "cached" /\ reply'.alook)
(* the record really answers: nothing cached, nothing from downstream        *)
CachedFailureAnswersStep ==
  (IsReply(reply') /\ reply'.q = "d64" /\ reply'.over = "cached") => (Blocked /\ reply'.answered /\ UNCHANGED fail)
NeverOverCachedFailure    == [][NeverOverCachedFailureStep]_vars64
NoLookupOverCachedFailure == [][NoLookupOverCachedFailureStep]_vars64
CachedFailureAnswers      == [][CachedFailureAnswersStep]_vars64

(* -simulate: two keys only, so the write actions are made rarer than in    *)
(* NextASim by their own guards (the D-variants keep their arguments in the  *)
(* action labels; the runner maps them back to the plain names)              *)
SubQueryWriteD(q, raw, aux, d) == Rare(50) /\ SubQueryWrite(q, raw, aux, d) /\ FailStep
CacheWriteD(r, raw, aux) == Rare(3) /\ CacheWrite(r, raw, aux) /\ FailStep
PrefetchCompleteD(q, raw, aux, d) == Rare(10) /\ PrefetchComplete(q, raw, aux, d) /\ FailStep
NoAnswerD(r) == Rare(3) /\ NoAnswer(r) /\ FailStep
PurgeD(q) == Rare(6) /\ Purge(q) /\ FailStep
HitMsgD(r, q, rt) == HitMsg(r, q, rt) /\ FailStep
HitWireD(r, q) == HitWire(r, q) /\ FailStep
GetEntryD(r, q) == GetEntry(r, q) /\ FailStep
LeaseD(r, d) == Rare(2) /\ Lease(r, d) /\ FailStep
PrefetchStartD(q) == PrefetchStart(q) /\ FailStep
TickAD(d) == TickA(d) /\ FailStep
Hit64D(rt, n) == Hit64(rt)          \* n: weight (several instances of the same successor)
Fail64D(rt, n) == Fail64(rt)
NextSim64 ==
  \/ \E r \in Reqs, q \in Keys, rt \in Routes : HitMsgD(r, q, rt)
  \/ \E r \in Reqs, q \in Keys : HitWireD(r, q) \/ GetEntryD(r, q)
  \/ \E r \in Reqs : NoAnswerD(r)
  \/ \E r \in Reqs, d \in Deltas : LeaseD(r, d)
  \/ \E r \in Reqs, raw \in RawTTLs, aux \in AuxSet : CacheWriteD(r, raw, aux)
  \/ \E q \in Keys, raw \in RawTTLs, aux \in AuxSet, d \in Deltas \cup {NoAux} :
        SubQueryWriteD(q, raw, aux, d) \/ PrefetchCompleteD(q, raw, aux, d)
  \/ \E q \in Keys : PrefetchStartD(q) \/ PurgeD(q)
  \/ \E d \in Ticks : TickAD(d)
  \/ \E rt \in Routes, n \in 1..3 : Hit64D(rt, n)
  \/ \E rt \in Routes, n \in 1..2 : Fail64D(rt, n)
  \/ \E rt \in Routes \cup {"get"} : HitFail(rt)
=============================================================================
