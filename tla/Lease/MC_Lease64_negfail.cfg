\* the model mutant: dns64 does not recognise the cached failure (the mark never reaches it); NeverOverCachedFailure must fail
CONSTANTS
  Ticks = {1, 2, 5}
  Horizon = 100000
  RawTTLs = {0, 7}
  AuxSet <- AuxN
  Deltas = {3}
  Floor = 5
  Cap = 86400
  EcsCap = 3
  CutMax = 0
  Keys <- Keys64
  Chain <- Chain64
  NegKey = "d6"
  ScopedKey = "sc"
  V6Key = "d6"
  V4Key = "d4"
  NegRule = "rfc2308"
  FailTTL = 5
  FailRule = "ignored"
  Routes = {"msg", "wire"}
  Reqs = {1}
  MaxLeases = 1
  Zones <- ZonesA
  Parent <- ParentA
  DTTLs = {7}
  Ceil = 43200
  ProvCap = 60
  MaxVer = 1
  MaxPubOps = 0
  PubInits <- PubA
  Res = {1}
SPECIFICATION Spec64
VIEW View64
INVARIANTS TypeOK64
PROPERTIES NeverOverCachedFailure
CHECK_DEADLOCK FALSE
