\* DNS64 over the cache: AAAA NODATA entry + A entry composed by Hit64 (Lease64.tla); every C04 property holds
CONSTANTS
  Ticks = {1, 2, 5}
  Horizon = 100000
  RawTTLs = {0, 7}
  AuxSet <- AuxN
  Deltas = {3}
  Floor = 5
  Cap = 86400
  EcsCap = 3
  CutMax = 0
  Keys <- Keys64
  Chain <- Chain64
  NegKey = "d6"
  ScopedKey = "sc"
  V6Key = "d6"
  V4Key = "d4"
  NegRule = "rfc2308"
  FailTTL = 0
  FailRule = "terminal"
  Routes = {"msg", "wire"}
  Reqs = {1}
  MaxLeases = 1
  Zones <- ZonesA
  Parent <- ParentA
  DTTLs = {7}
  Ceil = 43200
  ProvCap = 60
  MaxVer = 1
  MaxPubOps = 0
  PubInits <- PubA
  Res = {1}
SPECIFICATION Spec64
VIEW View64
INVARIANTS TypeOKA
PROPERTIES ServedLive TTLShown TTLMonotone ComposedMin LateWriteLoses
CHECK_DEADLOCK FALSE
