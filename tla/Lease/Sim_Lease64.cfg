\* -simulate behaviours of Lease64 for the replay on [dns64, cache, scripted downstream]
CONSTANTS
  Ticks = {1, 2, 3, 5}
  Horizon = 100000000
  RawTTLs = {0, 3, 7, 30, 100000}
  AuxSet <- AuxS
  Deltas = {0, 1, 3, 7}
  Floor = 5
  Cap = 86400
  EcsCap = 3
  CutMax = 0
  Keys <- Keys64
  Chain <- Chain64
  NegKey = "d6"
  ScopedKey = "sc"
  V6Key = "d6"
  V4Key = "d4"
  NegRule = "rfc2308"
  FailTTL = 5
  FailRule = "terminal"
  Routes = {"msg", "msgw", "wire"}
  Reqs = {1, 2}
  MaxLeases = 2
  Zones <- ZonesA
  Parent <- ParentA
  DTTLs = {7}
  Ceil = 43200
  ProvCap = 60
  MaxVer = 1
  MaxPubOps = 0
  PubInits <- PubA
  Res = {1}
INIT Init64
NEXT NextSim64
CHECK_DEADLOCK FALSE
