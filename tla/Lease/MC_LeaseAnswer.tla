--------------------------- MODULE MC_LeaseAnswer ---------------------------
(* constants of the answer-half configurations (MC_LeaseAnswer_*.cfg,       *)
(* Sim_LeaseAnswer.cfg); the delegation half is frozen at its initial state *)
EXTENDS Lease
KeysQ  == {"al", "tg"}
KeysT  == {"al", "md", "tg"}
KeysC  == {"tg"}
KeysS  == {"sc"}
ChainC == <<"tg">>
AuxN == {NoAux}
ChainQ == <<"al", "tg">>
KeysF  == {"al", "md", "tg", "ng", "sc"}
ChainF == <<"al", "md", "tg">>
\* an alias chain that ends in a name that does not exist (composed NXDOMAIN replies)
ChainN == <<"al", "md", "ng">>
KeysQN == {"al", "ng"}
ChainQN == <<"al", "ng">>
AuxQ == {NoAux, 3}
AuxF == {NoAux, 1, 3}
AuxS == {NoAux, 1, 3, 7}
ZonesA == {"p"}
ParentA == [z \in ZonesA |-> "root"]
PubA == {[z \in ZonesA |-> [present |-> TRUE, ns |-> 7, ds |-> NoDS, ver |-> 1]]}
=============================================================================
