CONSTANTS
  Ticks = {1, 2, 5}
  Horizon = 100000
  RawTTLs = {7}
  AuxSet <- AuxNone
  Deltas = {1}
  Floor = 5
  Cap = 86400
  EcsCap = 3
  CutMax = 0
  Keys <- KeysNone
  Chain <- ChainNone
  NegKey = "ng"
  ScopedKey = "sc"
  Routes = {"msg"}
  Reqs = {1}
  MaxLeases = 1
  Zones <- ZonesB
  Parent <- ParentB
  DTTLs = {1, 7}
  Ceil = 43200
  ProvCap = 60
  MaxVer = 2
  MaxPubOps = 1
  PubInits <- PubInitsB
  Res = {1}
SPECIFICATION SpecDeleg
VIEW ViewD
INVARIANTS TypeOKD FollowsParent
PROPERTIES LeaseWithinGrant NoSelfExtension
CHECK_DEADLOCK FALSE
