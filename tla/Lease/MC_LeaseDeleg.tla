---------------------------- MODULE MC_LeaseDeleg ----------------------------
(* constants of the delegation-half configurations; the answer half is      *)
(* frozen at its initial state                                              *)
EXTENDS Lease
ZonesD  == {"p", "c", "g", "s"}
ParentD == [z \in ZonesD |-> CASE z = "p" -> "root" [] z = "c" -> "p"
                                  [] z = "g" -> "c" [] z = "s" -> "p"]
ZonesQ  == {"p", "c"}
ParentQ == [z \in ZonesQ |-> CASE z = "p" -> "root" [] z = "c" -> "p"]
Pub(Z, ns, ds) == [z \in Z |-> [present |-> TRUE, ns |-> ns[z], ds |-> ds[z], ver |-> 1]]
(* hand-picked initial publications: long parent / short child, short        *)
(* parent / long child, DS shorter than NS, zero TTL                         *)
PubInitsD == {
  Pub(ZonesD, [z \in ZonesD |-> 7], [z \in ZonesD |-> NoDS]),
  Pub(ZonesD, [z \in ZonesD |-> IF z = "p" THEN 3 ELSE 7], [z \in ZonesD |-> NoDS]),
  Pub(ZonesD, [z \in ZonesD |-> IF z = "c" THEN 1 ELSE 7], [z \in ZonesD |-> IF z = "g" THEN 3 ELSE 7]),
  Pub(ZonesD, [z \in ZonesD |-> IF z = "g" THEN 0 ELSE 3], [z \in ZonesD |-> IF z = "p" THEN 1 ELSE NoDS]) }
PubInitsQ == {
  Pub(ZonesQ, [z \in ZonesQ |-> 7], [z \in ZonesQ |-> NoDS]),
  Pub(ZonesQ, [z \in ZonesQ |-> IF z = "p" THEN 3 ELSE 7], [z \in ZonesQ |-> IF z = "c" THEN 1 ELSE NoDS]) }
AuxNone == {NoAux}
ZonesT  == {"p", "c", "g"}
ParentT == [z \in ZonesT |-> CASE z = "p" -> "root" [] z = "c" -> "p" [] z = "g" -> "c"]
PubInitsT == {
  Pub(ZonesT, [z \in ZonesT |-> 7], [z \in ZonesT |-> NoDS]),
  Pub(ZonesT, [z \in ZonesT |-> IF z = "p" THEN 3 ELSE 7], [z \in ZonesT |-> IF z = "g" THEN 1 ELSE NoDS]) }
ZonesB  == {"p", "c", "s"}
ParentB == [z \in ZonesB |-> CASE z = "p" -> "root" [] z = "c" -> "p" [] z = "s" -> "p"]
PubInitsB == {
  Pub(ZonesB, [z \in ZonesB |-> 7], [z \in ZonesB |-> NoDS]),
  Pub(ZonesB, [z \in ZonesB |-> IF z = "s" THEN 1 ELSE 7], [z \in ZonesB |-> IF z = "p" THEN 3 ELSE NoDS]) }
ZonesOne == {"p"}
ParentOne == [z \in ZonesOne |-> "root"]
PubInitsOne == {Pub(ZonesOne, [z \in ZonesOne |-> 7], [z \in ZonesOne |-> NoDS]), Pub(ZonesOne, [z \in ZonesOne |-> 7], [z \in ZonesOne |-> 3])}
KeysNone == {"tg"}
ChainNone == <<"tg">>
=============================================================================
